#!/bin/bash
# usage: seed_check.sh <patch> <check-id>...   applies the patch to /repo, runs the checks, reverts.
set -u
patch=$1; shift
git -C /repo apply $patch || { echo "PATCH DOES NOT APPLY"; exit 2; }
for c in "$@"; do
  /verif/check $c > /tmp/seedcheck_$c.log 2>&1; rc=$?
  echo "$c exit=$rc  $(grep -c '^VIOLATION' /tmp/seedcheck_$c.log) VIOLATION lines; $(grep -m1 -E 'violated:|BROKEN' /tmp/seedcheck_$c.log | cut -c1-200)"
done
git -C /repo checkout -- .
git -C /repo status --short | head -3
