#!/bin/bash
# usage: seed_verify.sh <id> <patch> <demo_test.go> <pkgdir-relative>
# Confirms in a scratch worktree that the change compiles, passes the existing tests,
# and that the demonstration fails with the change and passes without it.
set -u
export GOFLAGS=-mod=mod GOPROXY=off GOSUMDB=off GOTOOLCHAIN=local
id=$1; patch=$2; demo=$3; pkg=$4
wt=/tmp/seedverify_$id
rm -rf $wt; git -C /repo worktree prune
git -C /repo worktree add -q --detach $wt HEAD || exit 2
cd $wt
git apply $patch || { echo "PATCH DOES NOT APPLY"; git -C /repo worktree remove --force $wt; exit 2; }
echo "== build"; go build ./... && echo build-ok
echo "== existing tests with the change"; go test -vet=off -count=1 ./... 2>&1 | grep -v "no test files" | grep -v "^ok" ; echo "tests-exit=${PIPESTATUS[0]}"
cp $demo $pkg/zz_demo_test.go
echo "== demo with the change (must fail)"; go test -vet=off -count=1 -run . ./$pkg 2>&1 | tail -5; echo "demo-with-change-exit=${PIPESTATUS[0]}"
git checkout -q -- .
echo "== demo without the change (must pass)"; go test -vet=off -count=1 ./$pkg 2>&1 | tail -3; echo "demo-without-change-exit=${PIPESTATUS[0]}"
cd /; git -C /repo worktree remove --force $wt
