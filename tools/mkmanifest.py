#!/usr/bin/env python3
"""Regenerates /verif/MANIFEST.json from the table below (kept by hand)."""
import json, subprocess

CLAIMED = {
 # id: (level category, technique, text, note, design_ref)
 "C01": ("model_checking", "symbolic execution of every decode entry point (bit-precise floats, tables as uninterpreted functions) + exhaustive ground table obligations decided by the SMT solver in exact integer arithmetic",
         "Every decode entry point returns its package's table entry for all codes at once (wiring: per-component decoders, the 8-bit constructors, and the generic constructor / LineariseColor on opaque NRGBA, RGBA, NRGBA64, RGBA64, Gray, Gray16); the three packages' tables are independent of one another in every initialisation order; all 3 x 65,792 table entries - built by the executor from the current SSA and bit-identical to the native build (checked each run) - are within 3e-7 of the published EOTF, with exact end points, strict monotonicity and T8[v]=T16[257v].",
         "Trusted: executor, z3 (used as exact-arithmetic oracle for the ground part: that part is exhaustive evaluation, not search), the platform's math.Pow for concrete arguments. Oracle: IEC 61966-2-1, Adobe RGB (1998), ISO 22028-2 written algebraically.", "DESIGN.md 5 C01"),
 "C02": ("model_checking", "bit-precise FP queries over all float32 values (z3/cvc5 portfolio), reals-with-rounding-error queries, uninterpreted-table wiring, exhaustive ground table obligations",
         "Clamp/range/no-panic for every float32 bit pattern incl. NaN; monotonicity for all pairs; |N(x)-S*x| <= 0.5+s_N; encoders are LUT[N(x)] on both init paths and colour types use the right encoder; a package's encoder result does not change when the other packages' tables come into existence (all six initialisation orders, all x); all 3 x 66,048 encode-table entries within 0.5+s_T codes of the published OETF.",
         "Trusted: executor, solvers, IEEE-754 rounding model (|err| <= u|x|+eta, monotone) for the real-arithmetic parts, gc/amd64 float->int conversion model. Literal half-code reading is relaxed by the a-priori slacks of DESIGN 3.1.", "DESIGN.md 5 C02"),
 "C20": ("model_checking", "exact real arithmetic with rational functions (NRA) for algebra/inverse/primaries; bit-precise float64 queries for exact singularity",
         "Matrix algebra equals the textbook definitions for all reals; M*Inverse(M)=Inverse(M)*M=I for |det|>=1e-3; generated primaries matrices map (1,1,1) to the white point and unit primaries to their chromaticities for all non-degenerate triangles (YY = 1) and, for the four built-in primary sets, for free luminances of the white point and the primaries, also when the same primaries are requested twice with different white points; Inverse panics on zero/equal-column float64 matrices.",
         "Trusted: executor, solvers, rounding budget for the real parts. Not machine-checked: non-singularity of generated matrices (inverse relation follows from the generic inverse theorem when Inverse returns); equal columns 0=2.", "DESIGN.md 5 C20"),
 "C03": ("model_checking", "symbolic execution of ToXYZ/ColorFromXYZ in real arithmetic with one rounding-error variable per float32 operation (signs resolved by interval analysis: linear arithmetic); ground checks of declared constants",
         "For all linear colours in [0,1]^3 and [-1,2]^3 and all four spaces: ToXYZ and ColorFromXYZ are within 1e-6..6e-6 of the reference matrix built independently from the declared chromaticities (and its inverse), both round trips return the input within 2e-6 (proportional bound on the wide box), declared chromaticities match the published ones, (1,1,1) and unit primaries map to the declared white and primaries within 1e-6.",
         "Trusted: executor, solvers, the standard model of IEEE rounding (|e| <= u|x| + eta), textbook reference construction in the harness evaluated in float64.", "DESIGN.md 5 C03"),
 "C04": ("model_checking", "stage decomposition; C04's own obligation (linear stage of the pipeline for all 16 ordered pairs) by symbolic execution with rounding-error variables in linear arithmetic",
         "Decoding a non-premultiplied 8-bit pixel is the table entry per channel for EVERY alpha (colour independent of alpha, alpha = A/255) in all four spaces; for every ordered pair and every linear source colour the pipeline's linear stage is within 4e-6 of the independent colorimetric reference A_ref*d (identity for a space to itself); with the decode (C01), encode (C02) and alpha (C14) contracts this bounds the per-channel code error as stated in evidence.",
         "Trusted: executor, solvers, rounding model; the glue from stage contracts to the end-to-end statement is arithmetic on the proven bounds (stated, not a query over code).", "DESIGN.md 5 C04"),
 "C05": ("model_checking", "bounded symbolic execution of the real loaders (go/ssa -> SMT-LIB2 bit-vectors, z3)",
         "Every metadata field is proved equal to the container specification's bytes by an unsat verdict over all values of every symbolic header/payload byte of the skeleton files; bounded by skeleton shape (<=2 ancillary chunks/segments, payloads <=5 bytes; PNG also with an iCCP chunk whose name has 1, 78 or 79 bytes).",
         "Trusted: go/ssa construction, the gosym executor (cross-validated natively on sampled path models each run), z3 4.8.12. Oracle is the PNG/JPEG/RIFF-WebP byte layout written in the harness, not DecodeConfig.", "DESIGN.md 5 C05"),
 "C06": ("model_checking", "bounded symbolic execution of the loaders on ICC-carrying skeletons with symbolic chunk numbers/totals/flags/payload bytes",
         "Returned profile bytes are proved equal, byte for byte as bit-vector terms, to the specification-side assembly (ICC.1 Annex B order for JPEG with all chunk orders and damage classes as models of one harness, interleaved with a segment of any other marker; WebP ICCP payload incl. sizes around 4096; the exact compressed bytes handed to inflate for PNG), damaged sets give (nil,error) with metadata, absence gives (nil,nil).",
         "Trusted: executor, z3; inflate is a stub (what goes in and that its output is returned untouched is what is proved). Bounds: <=3 (thorough 4) JPEG chunks, listed sizes.", "DESIGN.md 5 C06"),
 "C07": ("model_checking", "bounded symbolic execution of the four Load functions with a symbolic-content, scheduled, fault-injecting source (go/ssa -> SMT-LIB2, z3)",
         "On every feasible path over N arbitrary symbolic bytes (every truncation, every fault position, three delivery schedules) and over every truncation of skeleton files, the drained stream equals the delivered source bytes and surfaces the injected error; bounded by N (PNG 28, JPEG 14, WebP 40, auto 12 in quick); plus, through autometa, inputs longer than every internal buffer (signature + 4090..9000 bytes of ancillary data per format, whole and cut at 4097).",
         "Trusted: executor (cross-validated natively on sampled paths), z3; zlib replaced by a nondeterministic stub (inflate not modelled); path feasibility is the solver's, byte equality is term identity.", "DESIGN.md 5 C07"),
 "C08": ("model_checking", "two-run (2-safety) bounded symbolic execution: full delivery vs. chunked delivery of the same symbolic content",
         "Metadata, ICC bytes/error-ness and success outcome are proved identical between a fully delivering reader and readers delivering 1,2,3,7-byte chunks (with and without data+EOF), for skeleton files with symbolic fields (with and without an embedded profile, all three formats), small arbitrary inputs, and the ICC reader behind bufio on a 9000-byte profile (chunks 1,2,3,7,100, everything at once, 8192; data+EOF delivery, so bufio's direct-read path is taken).",
         "Trusted: executor, z3, deterministic zlib stub. Schedules are the enumerated fixed chunk sizes, not all compositions.", "DESIGN.md 5 C08"),
 "C09": ("model_checking", "bounded symbolic execution with engine-level panic / allocation-budget / instruction-budget obligations; symbolic allocation sizes decided by satisfiability queries",
         "For N arbitrary symbolic bytes per loader and for structured inputs whose every length, count, offset and size field is an unconstrained symbolic word, no path lets a panic escape, exceeds 16N+128KiB allocated bytes, or exceeds 4000N+200000 SSA instructions; an over-budget allocation is found as the model of a single query (all 2^32 values of a length field at once). Also: 100 tags sharing one 3000-byte element, 40 mluc records sharing one 3000-byte string (memory must stay linear). The mluc/textDescription decoders are explored in seven shapes, one run each (300 s wall budget per shape).",
         "Trusted: executor's allocation accounting (sizes from go/types for gc/amd64, append growth approximated), z3, zlib stub (its output excluded). SSA instruction count is the proxy for time.", "DESIGN.md 5 C09"),
 "C17": ("model_checking", "bounded symbolic execution of ProfileReader.ReadProfile / Profile.Description over all tag placements and mluc string placements with symbolic content",
         "Every tag entry equals in[offset:offset+size] for every placement of k<=2 tags in an 8-byte data area (k=0 included); the description equals the ASCII bytes of a textDescription, or the UTF-16BE decoding at an 'en' record's declared offset (else some record's) for every placement of <=2 records' strings.",
         "Trusted: executor, z3, real unicode/utf16.Decode executed symbolically on both sides, map iteration modelled as insertion and reverse order. Bounds on counts and string length as stated in evidence.", "DESIGN.md 5 C17"),
 "C18": ("model_checking", "bounded symbolic execution with a counting source; consumption bound asserted on every path",
         "For skeleton files of every family, loaded by the family's own loader and by the auto-detecting loader, followed by up to 70000 (thorough 300000) bytes of pixel data the number of bytes the loader pulled from the source is <= needed+64KiB on every path, and the file truncated at `needed` loads to identical metadata.",
         "Trusted: executor, z3; `needed` is computed in the harness from the container layout. 64 MiB payloads are outside the bound; the argument is that the count of requested bytes does not depend on what follows.", "DESIGN.md 5 C18"),
 "C19": ("model_checking", "differential bounded symbolic execution: three specific loaders and autometa.Load on the same symbolic input in one path",
         "auto's metadata/ICC/err-ness equals the first succeeding specific loader's, error without metadata when none succeeds, stream replays the input; over all inputs of every length up to 16 bytes, all skeleton families at every truncation, 9 polyglots, and a family of inputs longer than every internal buffer (4090..9000, thorough 70000, ancillary bytes per format).",
         "Trusted: executor, z3, deterministic zlib stub. The oracle is the specific loaders themselves (differential), as the property states.", "DESIGN.md 5 C19"),
 "C10": ("model_checking", "bounded symbolic execution of linear.TransformImageColor with all pixel bytes symbolic and a symbolically keyed per-colour function, compared byte-for-byte with a reference built by the standard library's Set; uninterpreted per-colour functions for the wiring of the 8 public transforms",
         "For each explored (source type, destination type, geometry, destination origin, parallelism) configuration and all pixel contents and keys at once, the destination parent's storage equals the reference (per-pixel function at dst.Min+(p-src.Min), everything else untouched); in-place use equals the function of the original pixels; each public image transform is TransformImageColor with its own package's per-colour function.",
         "Trusted: executor (merging/if-conversion cross-validated natively), z3, image/color and image Set/At as the definition of colour-model conversion; workers run sequentially (C11 covers their independence). f ranges over an XOR-keyed family (symbolic keys), not all functions.", "DESIGN.md 5 C10"),
 "C11": ("other", "happens-before encoding (SMT over integer timestamps, sequentially consistent interleavings) built from the symbolic executor's access logs of the real code; models replayed under the Go race detector",
         "For 19 entry points (the lazily initialised 16-bit table functions, chromatic adaptation, Lab, the XYZ/8-bit conversions and constructors of all four spaces, the four metadata loaders) and for the worker goroutines of TransformImageColor, no scenario of 2-3 concurrent callers of one entry point (first caller, a caller finding the Once taken, a later caller), and no pair of first calls of two different entry points touching common package-level state, admits a sequentially consistent execution with two conflicting plain accesses unordered by happens-before. Not a sampling of schedules: the interleaving is a solver variable.",
         "Trusted: executor's access log (cell identity, at most 6 events per instruction), the Go memory model's contracts for sync.Once/WaitGroup/go as stated; caller control flow restricted to the observed variants (one concrete input per entry point). Level 'other': a model of the memory model, not of the runtime.", "DESIGN.md 5 C11"),
 "C12": ("model_checking", "symbolic execution in exact real arithmetic with rational-function tracking; polynomial (in)equalities decided by z3/cvc5 (NRA)",
         "For all valid white-point pairs: A->B maps white A to white B within 1e-6, equals the Bradford-method matrix built independently from the published constants within 1e-6 per entry, A->A is the identity, xyY and XYZ constructors coincide, the XYZ constructor is checked directly on free XYZ white points as well, Apply is the matrix-vector product. Round trip A->B->A is in the thorough tier; three-point composition is attempted there and reported as a reduced bound if undecided.",
         "Trusted: executor, solvers; float rounding not modelled (exact reals over the float64-rounded constants the code uses): rounding budget assumption.", "DESIGN.md 5 C12"),
 "C13": ("model_checking", "symbolic execution in exact real arithmetic; cube roots as witnesses c^3=x; every branch combination a path; NRA queries",
         "ToLAB equals the CIE 1976 definition (written independently) within 1e-3 on the stated boxes, white maps to (100,0,0), multiples of white are neutral, L* monotone in Y, f continuous across the junction, XYZ->Lab->XYZ within 1e-5, no NaN/Inf (positive cube-root bases, non-zero divisors on every path).",
         "Trusted: executor, solvers, exact math.Pow contract (its accuracy outside the claim), rounding budget. Lab->XYZ->Lab is thorough-only/undecided.", "DESIGN.md 5 C13"),
 "C14": ("model_checking", "bit-precise FP queries (alpha round trip for all alphas), symbolic wiring per space with uninterpreted tables, per-alpha real-arithmetic obligations with rounding-error variables, ground table lemma",
         "Alpha passes through decode and encode bit-identically for all 65536/256 alphas; every encoder writes a float32 alpha as 0 below 0, the maximum from 1 up (+Inf and huge values included) and round-half-up(alpha*max) inside, stated independently of the quantiser; constructors return exactly A/max and zero colour for transparent premultiplied/generic pixels; opaque constructors agree; linearised premultiplied channels stay <= alpha for every r<=a (symbolic r) for the explored alphas, given the exhaustively checked table lemma T16[r]<=r/65535.",
         "Trusted: executor, solvers, IEEE rounding model for the real-arithmetic part; quick tier explores 1033 alphas (thorough: 8201). ColorFromNRGBA on a transparent pixel keeps the colour (not claimed).", "DESIGN.md 5 C14"),
 "C15": ("model_checking", "bounded symbolic execution of the three conversion helpers against the real image/draw.Draw executed symbolically; all pixel bytes symbolic; bit-vector equality per output byte",
         "For 15 source types x 3 (thorough 8) geometries x 6 parallelism values, with every byte of pixel storage symbolic, the helper's Pix/Stride/Rect equal those produced by draw.Draw(Src) for all pixel contents at once; identity for same-type input; input (pixel storage and, for paletted images, the palette) unmodified.",
         "Trusted: executor incl. function-level merging and if-conversion (cross-validated natively on sampled models), z3, image/draw of Go 1.23.5 as the oracle; worker goroutines executed sequentially.", "DESIGN.md 5 C15"),
 "C16": ("model_checking", "bounded symbolic execution of icc.ProfileReader (go/ssa -> SMT-LIB2 bit-vectors, z3)",
         "All 2^1024 headers carrying 'acsp' are covered by one symbolic 128-byte header; each Header field is a bit-vector identity against ICC.1:2010 Table 17 offsets; a header with any other signature is shown to be rejected.",
         "Trusted: executor, z3, stubs for fmt.Sprintf (format+argument terms compared) and time.Date (argument terms compared). Tag table is a fixed minimal one.", "DESIGN.md 5 C16"),
}

NOT_YET = "check not built yet in this session (work in progress; see DESIGN.md 8 build order)"

def main():
    props = [json.loads(l) for l in open('/verif/properties.jsonl')]
    checks = []
    na = []
    for p in props:
        pid = p['id']
        if pid in CLAIMED:
            cat, tech, text, note, ref = CLAIMED[pid]
            checks.append({
                "property_id": pid,
                "quick_cmd": f"./check {pid} --tier quick",
                "thorough_cmd": f"./check {pid} --tier thorough",
                "evidence_file": f"/verif/evidence/{pid}.json",
                "replay_cmd_template": f"./check {pid} --replay {{path}}",
                "engine": "gosym",
                "level_claimed": {"category": cat, "text": text, "design_ref": ref},
                "level_note": note,
                "technique": tech,
            })
        else:
            na.append({"property_id": pid, "reason": NA.get(pid, NOT_YET)})
    src = subprocess.run(["git", "-C", "/repo", "log", "--format=%H %s"], capture_output=True, text=True).stdout.strip().split("\n")
    m = {
        "version": 1,
        "setup_cmd": "cd /verif/engine && GOFLAGS=-mod=mod GOPROXY=off GOSUMDB=off GOTOOLCHAIN=local go build -o /verif/bin/gosym ./cmd/gosym",
        "hooks": {
            "guard": "verif",
            "enable": "no source hooks are needed: harnesses are injected as go/packages overlays (symbolic side) and go test -overlay files (native replay); nothing is written into /repo",
            "baseline_off_cmd": "cd /repo && go test -mod=mod -vet=off -count=1 -timeout 25m ./...",
            "source_commits": [],
            "add_only": True,
        },
        "engines": [{"name": "gosym", "path": "/verif/engine", "serves_properties": sorted(CLAIMED),
                     "kind_free_text": "symbolic executor for go/ssa emitting SMT-LIB2 to z3/cvc5: bounded symbolic execution with path forking by re-execution, switch-chain merging, native replay of every model"}],
        "checks": checks,
        "not_applicable": na,
        "notes": "fix: commits in /repo (genuine defects found by the checks): " + "; ".join(l for l in src if " fix:" in l),
    }
    json.dump(m, open('/verif/MANIFEST.json', 'w'), indent=1)
    print("claimed", len(checks), "not_applicable", len(na))

NA = {}

if __name__ == '__main__':
    main()
