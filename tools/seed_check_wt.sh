#!/bin/bash
# usage: seed_check_wt.sh <name> <patch> <check-id>...
# Like seed_check.sh but applies the patch in a scratch worktree of /repo and points the
# checks at it (VERIF_REPO), so /repo itself is not touched. The worktree is removed afterwards.
set -u
name=$1; patch=$2; shift 2
wt=/tmp/seedrepo_$name
git -C /repo worktree prune; rm -rf $wt
git -C /repo worktree add -q --detach $wt HEAD || exit 2
git -C $wt apply $patch || { echo "PATCH DOES NOT APPLY"; git -C /repo worktree remove --force $wt; exit 2; }
for c in "$@"; do
  VERIF_REPO=$wt /verif/bin/gosym check $c > /tmp/seedcheck_${name}_$c.log 2>&1; rc=$?
  # the run above rewrote evidence/$c.json from the seeded tree: put the committed one back
  git -C /verif checkout -q -- evidence/$c.json 2>/dev/null
  echo "$c exit=$rc  $(grep -c '^VIOLATION' /tmp/seedcheck_${name}_$c.log) VIOLATION lines; $(grep -m1 -E 'violated:|BROKEN' /tmp/seedcheck_${name}_$c.log | cut -c1-220)"
done
git -C /repo worktree remove --force $wt
