package sym

import (
	"go/token"
	"sync"

	"golang.org/x/tools/go/ssa"
)

// Switch-chain merging: an SSA chain
//
//	if x == c1 goto T1 else B2;  B2: if x == c2 goto T2 else B3; ...
//
// forks once per distinct target with a disjunctive condition instead of once
// per case (DESIGN 2.3).

type chainCase struct {
	c      ssa.Value
	target *ssa.BasicBlock
	from   *ssa.BasicBlock
}

type chainInfo struct {
	x      ssa.Value
	groups [][]chainCase // cases grouped by (target, phi-compatible)
	deflt  *ssa.BasicBlock
	last   *ssa.BasicBlock
}

var chainCache sync.Map // *ssa.If -> *chainInfo (nil entry = not a chain)

func eqlCond(b *ssa.BasicBlock) (*ssa.BinOp, *ssa.If) {
	n := len(b.Instrs)
	if n < 2 {
		return nil, nil
	}
	ifi, ok := b.Instrs[n-1].(*ssa.If)
	if !ok {
		return nil, nil
	}
	bo, ok := ifi.Cond.(*ssa.BinOp)
	if !ok || bo.Op != token.EQL || bo.Block() != b {
		return nil, nil
	}
	if _, isConst := bo.Y.(*ssa.Const); !isConst {
		if _, isLoad := bo.Y.(*ssa.UnOp); !isLoad {
			return nil, nil
		}
	}
	if refs := bo.Referrers(); refs == nil || len(*refs) != 1 {
		return nil, nil
	}
	return bo, ifi
}

func analyseChain(head *ssa.If) *chainInfo {
	b0 := head.Block()
	bo, _ := eqlCond(b0)
	if bo == nil {
		return nil
	}
	if _, ok := bo.Y.(*ssa.Const); !ok {
		return nil
	}
	ci := &chainInfo{x: bo.X}
	var cases []chainCase
	cur := b0
	for {
		bo, _ := eqlCond(cur)
		cases = append(cases, chainCase{c: bo.Y, target: cur.Succs[0], from: cur})
		next := cur.Succs[1]
		nbo, _ := eqlCond(next)
		if nbo == nil || len(next.Instrs) != 2 || len(next.Preds) != 1 || nbo.X != ci.x {
			ci.deflt = next
			ci.last = cur
			break
		}
		if _, ok := nbo.Y.(*ssa.Const); !ok {
			ci.deflt = next
			ci.last = cur
			break
		}
		cur = next
	}
	if len(cases) < 3 {
		return nil
	}
	// group by target; split groups whose phi edges differ
	for _, c := range cases {
		placed := false
		for gi, g := range ci.groups {
			if g[0].target == c.target && phiCompatible(c.target, g[0].from, c.from) {
				ci.groups[gi] = append(ci.groups[gi], c)
				placed = true
				break
			}
		}
		if !placed {
			ci.groups = append(ci.groups, []chainCase{c})
		}
	}
	// the default block must not be a target with differing phis; fine either way
	return ci
}

func phiCompatible(t *ssa.BasicBlock, a, b *ssa.BasicBlock) bool {
	if a == b {
		return true
	}
	ia, ib := -1, -1
	for i, p := range t.Preds {
		if p == a {
			ia = i
		}
		if p == b {
			ib = i
		}
	}
	if ia < 0 || ib < 0 {
		return false
	}
	for _, in := range t.Instrs {
		phi, ok := in.(*ssa.Phi)
		if !ok {
			break
		}
		if phi.Edges[ia] != phi.Edges[ib] {
			ca, oka := phi.Edges[ia].(*ssa.Const)
			cb, okb := phi.Edges[ib].(*ssa.Const)
			if oka && okb && ca.Value != nil && cb.Value != nil && ca.Value.ExactString() == cb.Value.ExactString() {
				continue
			}
			return false
		}
	}
	return true
}

func (e *Exec) tryChain(fr *frame, instr *ssa.If) bool {
	v, ok := chainCache.Load(instr)
	if !ok {
		ci := analyseChain(instr)
		chainCache.Store(instr, ci)
		v = ci
	}
	ci := v.(*chainInfo)
	if ci == nil {
		return false
	}
	x := fr.get(ci.x)
	if t, isTerm := x.(*Term); isTerm && t.IsConst() {
		return false
	}
	for _, g := range ci.groups {
		cond := e.B.Bool(false)
		for _, c := range g {
			cond = e.B.Or(cond, e.equals(ci.x.Type(), x, fr.get(c.c)))
		}
		if e.Decide(cond) {
			fr.prevBlock, fr.block = g[0].from, g[0].target
			return true
		}
	}
	fr.prevBlock, fr.block = ci.last, ci.deflt
	return true
}
