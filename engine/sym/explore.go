package sym

import (
	"go/token"
	"fmt"
	"go/types"
	"os"
	"path/filepath"
	"sort"
	"strings"
	"sync"
	"time"

	"golang.org/x/tools/go/packages"
	"golang.org/x/tools/go/ssa"
	"golang.org/x/tools/go/ssa/ssautil"
)

// Program is the loaded SSA form of /repo plus harness overlays.
type Program struct {
	Prog     *ssa.Program
	Pkgs     map[string]*ssa.Package
	LoadTime time.Duration
	Overlay  map[string]string // virtual path -> real path

	refOnce    sync.Once
	referenced map[*ssa.Global]bool // globals some function uses other than by loading from them
}

// writtenGlobals: package-level variables that any function of the program (init
// functions included) refers to in any way other than a direct load - stores, address
// escapes, calls on their address. A variable outside this set keeps the value it has at
// program start; if its package's init never mentions it either, that is the zero value.
func (p *Program) writtenGlobals() map[*ssa.Global]bool {
	p.refOnce.Do(func() {
		p.referenced = map[*ssa.Global]bool{}
		for fn := range ssautil.AllFunctions(p.Prog) {
			for _, b := range fn.Blocks {
				for _, in := range b.Instrs {
					for _, op := range in.Operands(nil) {
						g, ok := (*op).(*ssa.Global)
						if !ok {
							continue
						}
						if u, isLoad := in.(*ssa.UnOp); isLoad && u.Op == token.MUL && u.X == g {
							continue // plain load
						}
						p.referenced[g] = true
					}
				}
			}
		}
	})
	return p.referenced
}

// RepoDir is the tree the checks run against: /repo. (VERIF_REPO may point the
// seed-testing tools at a scratch worktree; registered commands never set it.)
var RepoDir = repoDir()

func repoDir() string {
	if d := os.Getenv("VERIF_REPO"); d != "" {
		return d
	}
	return "/repo"
}
const ModPath = "github.com/mandykoh/prism"

// LoadProgram loads every package of /repo with the harness overlays from
// harnessDir (a tree mirroring /repo: harnessDir/meta/icc/zz_x.go is injected as
// /repo/meta/icc/zz_x.go). The encoding is regenerated from the files on disk.
func LoadProgram(harnessDir string) (*Program, error) {
	t0 := time.Now()
	overlay := map[string][]byte{}
	ovPaths := map[string]string{}
	extra := map[string]bool{}
	err := filepath.Walk(harnessDir, func(p string, info os.FileInfo, err error) error {
		if err != nil {
			return err
		}
		if info.IsDir() || !strings.HasSuffix(p, ".go") || strings.HasSuffix(p, "_test.go") {
			return nil
		}
		rel, _ := filepath.Rel(harnessDir, p)
		data, err := os.ReadFile(p)
		if err != nil {
			return err
		}
		virt := filepath.Join(RepoDir, rel)
		overlay[virt] = data
		ovPaths[virt] = p
		extra["./"+filepath.Dir(rel)] = true
		return nil
	})
	if err != nil {
		return nil, err
	}
	// synthesise the harness API file in every harness package
	tmpl, err := os.ReadFile(filepath.Join(harnessDir, "_api", "api.go.tmpl"))
	if err != nil {
		return nil, err
	}
	dirs := map[string]string{}
	for virt, data := range overlay {
		if strings.Contains(virt, "/_api/") {
			delete(overlay, virt)
			continue
		}
		dirs[filepath.Dir(virt)] = packageName(data)
	}
	for d, name := range dirs {
		overlay[filepath.Join(d, "zz_verif_api.go")] = []byte(strings.Replace(string(tmpl), "PKGNAME", name, 1))
	}
	delete(extra, "./_api")
	shared, err := os.ReadFile(filepath.Join(harnessDir, "_api", "shared.go.tmpl"))
	if err != nil {
		return nil, err
	}
	overlay[filepath.Join(RepoDir, "zzverif/api/api.go")] = shared
	extra["./zzverif/api"] = true
	std, err := StdOverlay()
	if err != nil {
		return nil, err
	}
	for k, v := range std {
		overlay[k] = v
	}
	cfg := &packages.Config{
		Mode:    packages.LoadAllSyntax,
		Dir:     RepoDir,
		Env:     append(os.Environ(), "GOFLAGS=-mod=mod", "GOPROXY=off", "GOSUMDB=off", "GOTOOLCHAIN=local"),
		Overlay: overlay,
	}
	patterns := []string{"./..."}
	for d := range extra {
		patterns = append(patterns, d)
	}
	sort.Strings(patterns)
	pkgs, err := packages.Load(cfg, patterns...)
	if err != nil {
		return nil, err
	}
	var errs []string
	packages.Visit(pkgs, nil, func(p *packages.Package) {
		for _, e := range p.Errors {
			errs = append(errs, fmt.Sprintf("%s: %v", p.PkgPath, e))
		}
	})
	if len(errs) > 0 {
		return nil, fmt.Errorf("package load errors:\n%s", strings.Join(errs, "\n"))
	}
	prog, spkgs := ssautil.AllPackages(pkgs, ssa.InstantiateGenerics|ssa.SanityCheckFunctions)
	prog.Build()
	res := &Program{Prog: prog, Pkgs: map[string]*ssa.Package{}, Overlay: ovPaths}
	for _, p := range spkgs {
		if p != nil {
			res.Pkgs[p.Pkg.Path()] = p
		}
	}
	res.LoadTime = time.Since(t0)
	return res, nil
}

func packageName(src []byte) string {
	for _, line := range strings.Split(string(src), "\n") {
		line = strings.TrimSpace(line)
		if strings.HasPrefix(line, "package ") {
			return strings.Fields(line)[1]
		}
	}
	return "main"
}

// globals of packages whose init is not run that may be read as zero values
// (their value is only passed to stubs).
var zeroOKGlobals = map[string]bool{"time.UTC": true, "time.Local": true}

var defaultInitPkgs = []string{
	"io", "bufio", "bytes", "image", "image/color", "image/draw", "unicode/utf16",
	"github.com/mandykoh/go-parallel",
}

// Harness describes one symbolic exploration.
type Harness struct {
	Pkg       string // import path suffix relative to the module, "" for root
	Func      string
	Cfg       Config
	Hooks     map[string]hookFn
	MaxPaths  int
	Solver    string
	TimeoutMs int
	// WallBudgetMs bounds the wall time of the whole run (default 30 min): when it is
	// exceeded exploration stops and the run reports an exhausted bound (inconclusive)
	WallBudgetMs int
	MathHook  func(e *Exec, name string, args []Value) (Value, bool)
	// OnPathEnd is called after each completed path (for harness-specific
	// post-conditions over engine state such as fmt call logs).
	OnPathEnd func(e *Exec)
	Verbose   bool
	// SampleModels: number of completed paths for which a model of the path
	// condition is extracted (used for native cross-validation).
	SampleModels int
	Workers      int
	// SetGlobals overrides int-typed package-level variables of the harness
	// package after initialisation (bounds such as input sizes per tier).
	SetGlobals map[string]int64
}

type PathSample struct {
	Reaches []string
	Inputs  []InputVal
}

type Report struct {
	Harness      string
	Paths        int
	Completed    int
	Aborted      int
	Stopped      int
	Violations   []*Violation
	EngineErrors []string
	BoundsHit    []string
	Inconclusive []string
	Reaches      map[string]int
	Funcs        map[string]int
	Assumptions  []string
	Notes        []string
	Queries      int
	Sat          int
	Unsat        int
	Unknown      int
	SolverTime   time.Duration
	ModelTime    time.Duration
	SolverErrors []string
	Wall         time.Duration
	Steps        int64
	MaxPathSteps int64
	MaxAlloc     int64
	Asserts      int
	TrivialAsserts int
	Decisions    int
	Inputs       int
	SampleInputs []string
	PathsTruncated bool
	ViolationCount int
	SymbolicPaths  int
	Samples      []PathSample
	samplePending int
}

func (r *Report) OK() bool {
	return len(r.Violations) == 0 && len(r.EngineErrors) == 0 && len(r.BoundsHit) == 0 && len(r.Inconclusive) == 0 && len(r.SolverErrors) == 0 && !r.PathsTruncated
}

func (p *Program) pkgPath(rel string) string {
	if rel == "" {
		return ModPath
	}
	return ModPath + "/" + rel
}

func (p *Program) newExec(h *Harness, b *Builder, s *Solver) *Exec {
	e := &Exec{B: b, S: s, Prog: p.Prog, Cfg: h.Cfg, sizes: types.SizesFor("gc", "amd64"),
		globals: map[*ssa.Global]*Value{}, known: map[int]bool{}, calls: map[string]int{}, reaches: map[string]bool{},
		hooks: defaultHooks(), harness: h.Pkg + "." + h.Func, mathHook: h.MathHook}
	for k, v := range h.Hooks {
		e.hooks[k] = v
	}
	if e.Cfg.InitPkgs == nil {
		e.Cfg.InitPkgs = map[string]bool{}
	}
	for _, ip := range defaultInitPkgs {
		e.Cfg.InitPkgs[ip] = true
	}
	for _, sp := range p.Prog.AllPackages() {
		path := sp.Pkg.Path()
		inited := strings.HasPrefix(path, ModPath) || e.Cfg.InitPkgs[path]
		if strings.HasPrefix(path, ModPath) {
			e.Cfg.InitPkgs[path] = true
		}
		// A package whose initialisation is not executed: its variables are poison, except
		// those that no function of the program (init included) ever stores to or takes the
		// address of - they have no initialiser, so they hold the zero value for ever
		// (e.g. encoding/binary.BigEndian).
		var touched map[*ssa.Global]bool
		if !inited {
			touched = p.writtenGlobals()
		}
		for _, m := range sp.Members {
			if g, ok := m.(*ssa.Global); ok {
				var cell Value
				if inited || g.Name() == "init$guard" || zeroOKGlobals[path+"."+g.Name()] || (touched != nil && !touched[g]) {
					cell = e.zero(deref(g.Type()))
				} else {
					cell = Poison{What: path + "." + g.Name()}
				}
				e.globals[g] = &cell
			}
		}
	}
	return e
}

// Explore runs the harness over all feasible paths.
func (p *Program) Explore(h *Harness) *Report {
	t0 := time.Now()
	rep := &Report{Harness: h.Pkg + "." + h.Func, Reaches: map[string]int{}, Funcs: map[string]int{}}
	sp := p.Pkgs[p.pkgPath(h.Pkg)]
	if sp == nil {
		rep.EngineErrors = append(rep.EngineErrors, "package not found: "+h.Pkg)
		return rep
	}
	fn := sp.Func(h.Func)
	if fn == nil {
		rep.EngineErrors = append(rep.EngineErrors, "harness function not found: "+h.Func)
		return rep
	}
	solverKind := h.Solver
	if solverKind == "" {
		solverKind = "z3"
	}
	to := h.TimeoutMs
	if to == 0 {
		to = 60000
	}
	wall := h.WallBudgetMs
	if wall == 0 {
		wall = 1800000
	}
	deadline := time.Now().Add(time.Duration(wall) * time.Millisecond)
	maxPaths := h.MaxPaths
	if maxPaths == 0 {
		maxPaths = 20000
	}
	maxWorkers := h.Workers
	if maxWorkers <= 0 {
		maxWorkers = 8
	}
	var mu sync.Mutex
	cond := sync.NewCond(&mu)
	work := [][]Decision{nil}
	active := 0
	workers := 0
	stop := false
	assum := map[string]bool{}
	seenViol := map[string]bool{}
	var wg sync.WaitGroup
	tracker := &violTracker{seen: map[string]int{}}

	var worker func()
	worker = func() {
		defer wg.Done()
		inc := to
		if h.Cfg.PortfolioFallback && inc > 10000 {
			inc = 10000
		}
		s, err := NewSolver(solverKind, inc)
		if err == nil {
			s.LongMs = to
		}
		if err != nil {
			mu.Lock()
			rep.EngineErrors = append(rep.EngineErrors, err.Error())
			stop = true
			workers--
			cond.Broadcast()
			mu.Unlock()
			return
		}
		defer s.Close()
		b := NewBuilder()
		for {
			mu.Lock()
			for len(work) == 0 && active > 0 && !stop {
				cond.Wait()
			}
			if stop || (len(work) == 0 && active == 0) {
				rep.Queries += s.Queries
				rep.Sat += s.NSat
				rep.Unsat += s.NUnsat
				rep.Unknown += s.NUnknown
				rep.SolverTime += s.Time
				rep.ModelTime += s.ModelTime
				rep.SolverErrors = append(rep.SolverErrors, s.Errors...)
				workers--
				cond.Broadcast()
				mu.Unlock()
				return
			}
			if time.Now().After(deadline) {
				rep.BoundsHit = append(rep.BoundsHit, fmt.Sprintf("wall budget %d s exhausted with %d prefixes pending", wall/1000, len(work)))
				stop = true
				cond.Broadcast()
				mu.Unlock()
				continue
			}
			if rep.Paths+active >= maxPaths {
				rep.PathsTruncated = true
				rep.BoundsHit = append(rep.BoundsHit, fmt.Sprintf("path budget %d exhausted with %d prefixes pending", maxPaths, len(work)))
				stop = true
				cond.Broadcast()
				mu.Unlock()
				continue
			}
			prefix := work[len(work)-1]
			work = work[:len(work)-1]
			active++
			// spawn another worker if there is more work
			if len(work) > 0 && workers < maxWorkers {
				workers++
				wg.Add(1)
				go worker()
			}
			mu.Unlock()

			pathSlots <- struct{}{}
			e := p.newExec(h, b, s)
			e.prefix = prefix
			e.tracker = tracker
			e.deadline = deadline
			b.fresh = 0
			outcome := e.runPath(sp, fn, h)
			var sample *PathSample
			mu.Lock()
			needSample := outcome.kind == "completed" && len(rep.Samples)+rep.samplePending < h.SampleModels
			if needSample {
				rep.samplePending++
			}
			mu.Unlock()
			if needSample {
				if r, vals := e.checkVals(e.inputs); r == Sat {
					ps := &PathSample{}
					for l := range e.reaches {
						ps.Reaches = append(ps.Reaches, l)
					}
					sort.Strings(ps.Reaches)
					for i, in := range e.inputs {
						ps.Inputs = append(ps.Inputs, InputVal{Name: in.Name, Tag: e.inputTags[i], Sort: in.Sort, Val: vals[i]})
					}
					sample = ps
				}
			}
			<-pathSlots

			mu.Lock()
			active--
			rep.Paths++
			if needSample {
				rep.samplePending--
				if sample != nil {
					rep.Samples = append(rep.Samples, *sample)
				}
			}
			switch outcome.kind {
			case "completed":
				rep.Completed++
			case "aborted":
				rep.Aborted++
			case "stopped":
				rep.Stopped++
			case "engine":
				rep.EngineErrors = append(rep.EngineErrors, outcome.msg)
			case "bound":
				rep.BoundsHit = append(rep.BoundsHit, outcome.msg)
			}
			work = append(work, e.forks...)
			for _, v := range e.violations {
				key := v.Kind + "|" + v.Label
				if v.HasModel && (!seenViol[key] || len(rep.Violations) < 30) {
					rep.Violations = append(rep.Violations, v)
					seenViol[key] = true
				}
				rep.ViolationCount++
			}
			for l := range e.reaches {
				rep.Reaches[l]++
			}
			for f, n := range e.calls {
				rep.Funcs[f] += n
			}
			for a := range e.assumptions {
				assum[a] = true
			}
			rep.Inconclusive = append(rep.Inconclusive, e.inconclusive...)
			if len(rep.Notes) < 20 {
				rep.Notes = append(rep.Notes, e.notes...)
			}
			rep.Steps += e.steps
			if e.steps > rep.MaxPathSteps {
				rep.MaxPathSteps = e.steps
			}
			if e.allocated > rep.MaxAlloc {
				rep.MaxAlloc = e.allocated
			}
			rep.Asserts += e.nAsserts
			rep.TrivialAsserts += e.nTrivial
			rep.Decisions += len(e.trace)
			if len(e.trace) > 0 || len(e.pcs) > 0 {
				rep.SymbolicPaths++
			}
			if len(e.inputs) > rep.Inputs {
				rep.Inputs = len(e.inputs)
			}
			if e.unknowns > 0 {
				rep.Inconclusive = append(rep.Inconclusive, fmt.Sprintf("%d feasibility queries returned unknown on one path (both sides kept)", e.unknowns))
			}
			if h.Verbose {
				fmt.Fprintf(os.Stderr, "  path %d: %s %s steps=%d decisions=%d forks=%d\n", rep.Paths, outcome.kind, outcome.msg, e.steps, len(e.trace), len(e.forks))
			}
			if len(rep.EngineErrors) > 20 {
				stop = true
			}
			// enough evidence: a run that has produced several violations with models is
			// not explored further (the verdict is already "violated")
			budgetViol := false
			for _, v := range e.violations {
				if v.HasModel && (v.Kind == "steps" || v.Kind == "alloc") {
					budgetViol = true
				}
			}
			if (len(rep.Violations) >= 6 || budgetViol) && !stop {
				stop = true
				rep.Notes = append(rep.Notes, "exploration stopped: the verdict of this run is already 'violated' (budget violation, or 6 violations with models)")
			}
			cond.Broadcast()
			mu.Unlock()
		}
	}
	mu.Lock()
	workers++
	wg.Add(1)
	mu.Unlock()
	go worker()
	wg.Wait()
	for a := range assum {
		rep.Assumptions = append(rep.Assumptions, a)
	}
	sort.Strings(rep.Assumptions)
	rep.Wall = time.Since(t0)
	return rep
}

// pathSlots bounds the number of paths executing at once across all harnesses.
var pathSlots = make(chan struct{}, 16)

type pathOutcome struct {
	kind string
	msg  string
}

func (e *Exec) runPath(sp *ssa.Package, fn *ssa.Function, h *Harness) (out pathOutcome) {
	defer func() {
		r := recover()
		if r == nil {
			return
		}
		switch r := r.(type) {
		case pathAbort:
			out = pathOutcome{"aborted", r.reason}
		case pathStop:
			out = pathOutcome{"stopped", ""}
		case engineError:
			out = pathOutcome{"engine", r.msg}
		case boundExhausted:
			out = pathOutcome{"bound", r.what}
		case budgetViolation:
			e.recordViolation(r.kind, r.kind+" budget", r.detail, nil)
			out = pathOutcome{"stopped", r.detail}
		case targetPanic:
			e.recordViolation("panic", "panic escaped to the harness", describe(r.v), nil)
			out = pathOutcome{"stopped", "panic: " + describe(r.v)}
		default:
			out = pathOutcome{"engine", fmt.Sprintf("internal error: %v", r)}
		}
	}()
	// package initialisation (dependencies are run through the init call chain)
	if init := sp.Func("init"); init != nil {
		e.callSSA(nil, 0, init, nil, nil)
	}
	for name, val := range h.SetGlobals {
		g, ok := sp.Members[name].(*ssa.Global)
		if !ok {
			panic(errorf("SetGlobals: no global %s", name))
		}
		*e.globals[g] = e.mkInt(val)
	}
	e.steps = 0
	e.allocated = 0
	e.calls = map[string]int{}
	e.callSSA(nil, 0, fn, nil, nil)
	if h.OnPathEnd != nil {
		h.OnPathEnd(e)
	}
	return pathOutcome{"completed", ""}
}

// SliceTerms returns the scalar cells of a slice value.
func SliceTerms(v Value) ([]*Term, bool) {
	// a table may be held as a slice, an array, or a pointer to an array
	if p, ok := v.(*Value); ok && p != nil {
		v = *p
	}
	if arr, ok := v.(ArrayV); ok {
		out := make([]*Term, len(arr))
		for i := range arr {
			t, ok := arr[i].(*Term)
			if !ok {
				return nil, false
			}
			out[i] = t
		}
		return out, true
	}
	sl, ok := v.(*SliceV)
	if !ok || sl == nil || !sl.Len.IsConst() {
		return nil, false
	}
	n := int(sl.Len.C)
	if n > len(sl.A) {
		return nil, false
	}
	out := make([]*Term, n)
	for i := 0; i < n; i++ {
		t, ok := sl.A[i].(*Term)
		if !ok {
			return nil, false
		}
		out[i] = t
	}
	return out, true
}

// GlobalValue returns the current value of a package-level variable.
func (e *Exec) GlobalValue(pkgPath, name string) Value {
	for _, sp := range e.Prog.AllPackages() {
		if sp.Pkg.Path() != pkgPath {
			continue
		}
		if g, ok := sp.Members[name].(*ssa.Global); ok {
			return *e.globals[g]
		}
	}
	return nil
}

// InputValues returns the concrete values of the harness inputs on this path
// (choices are concrete after concretisation).
func (e *Exec) InputValues() []uint64 {
	var out []uint64
	for _, in := range e.inputs {
		if in.Sort.K != SBV {
			continue
		}
		if e.model != nil {
			if v, ok := e.model[in.ID]; ok {
				out = append(out, v)
				continue
			}
		}
		// look for an equality in the path condition
		found := false
		for _, c := range e.pcs {
			if c.Op == OEq && len(c.Args) == 2 {
				if c.Args[0] == in && c.Args[1].IsConst() {
					out = append(out, c.Args[1].C)
					found = true
					break
				}
				if c.Args[1] == in && c.Args[0].IsConst() {
					out = append(out, c.Args[0].C)
					found = true
					break
				}
			}
		}
		if !found {
			out = append(out, 0)
		}
	}
	return out
}

// GlobalNames gives stable names to the cells reachable from package-level variables
// (struct fields, array and slice elements, pointees), restricted to the cells in want.
// Names are comparable across paths, which cell addresses are not (C11 cross-function
// scenarios).
func (e *Exec) GlobalNames(want map[*Value]bool) map[*Value]string {
	out := map[*Value]string{}
	type g struct {
		name string
		cell *Value
	}
	var gs []g
	for sg, cell := range e.globals {
		if sg.Pkg == nil || sg.Pkg.Pkg == nil {
			continue
		}
		gs = append(gs, g{sg.Pkg.Pkg.Path() + "." + sg.Name(), cell})
	}
	sort.Slice(gs, func(i, j int) bool { return gs[i].name < gs[j].name })
	seen := map[*Value]bool{}
	var walk func(p *Value, name string, depth int)
	walk = func(p *Value, name string, depth int) {
		if p == nil || seen[p] || depth > 6 {
			return
		}
		seen[p] = true
		if want[p] {
			out[p] = name
		}
		switch v := (*p).(type) {
		case StructV:
			for i := range v {
				walk(&v[i], fmt.Sprintf("%s.f%d", name, i), depth+1)
			}
		case ArrayV:
			for i := range v {
				walk(&v[i], fmt.Sprintf("%s[%d]", name, i), depth+1)
			}
		case *SliceV:
			if v != nil {
				for i := range v.A {
					walk(&v.A[i], fmt.Sprintf("%s[%d]", name, i), depth+1)
				}
			}
		case *Value:
			walk(v, name+".*", depth+1)
		}
	}
	for _, x := range gs {
		walk(x.cell, x.name, 0)
	}
	return out
}
