package sym

import (
	"fmt"
	"go/types"
	"math/big"
	"sync"
)

// apiHooks are the harness-side functions (declared in the overlay file
// zz_verif_api.go of each harness package) that the engine intercepts by name.
var apiHooks map[string]hookFn

func init() {
	apiHooks = map[string]hookFn{
		"verifBytes": func(e *Exec, fr *frame, args []Value) Value {
			n := int(e.Concretize(args[0].(*Term), "verifBytes length"))
			cells := make([]Value, n)
			blk := e.nInputBlock()
			for i := range cells {
				cells[i] = e.newInput(fmt.Sprintf("b%d_%d", blk, i), BV(8), "byte")
			}
			return e.mkSlice(cells)
		},
		"verifU8": func(e *Exec, fr *frame, args []Value) Value {
			if e.Cfg.IntInputsAsReal {
				return e.newRealInt(fmt.Sprintf("i8_%d", e.nInputBlock()), 255, "u8")
			}
			return e.newInput(fmt.Sprintf("u8_%d", e.nInputBlock()), BV(8), "u8")
		},
		"verifU16": func(e *Exec, fr *frame, args []Value) Value {
			if e.Cfg.IntInputsAsReal {
				return e.newRealInt(fmt.Sprintf("i16_%d", e.nInputBlock()), 65535, "u16")
			}
			return e.newInput(fmt.Sprintf("u16_%d", e.nInputBlock()), BV(16), "u16")
		},
		"verifU32":  func(e *Exec, fr *frame, args []Value) Value { return e.newInput(fmt.Sprintf("u32_%d", e.nInputBlock()), BV(32), "u32") },
		"verifU64":  func(e *Exec, fr *frame, args []Value) Value { return e.newInput(fmt.Sprintf("u64_%d", e.nInputBlock()), BV(64), "u64") },
		"verifInt":  func(e *Exec, fr *frame, args []Value) Value { return e.newInput(fmt.Sprintf("int_%d", e.nInputBlock()), BV(64), "int") },
		"verifBool": func(e *Exec, fr *frame, args []Value) Value { return e.newInput(fmt.Sprintf("bool_%d", e.nInputBlock()), BoolSort, "bool") },
		"verifF32": func(e *Exec, fr *frame, args []Value) Value {
			if e.Cfg.Float == FloatFP {
				return e.newInput(fmt.Sprintf("f32_%d", e.nInputBlock()), FP(32), "f32")
			}
			return e.newInput(fmt.Sprintf("r32_%d", e.nInputBlock()), RealSort, "f32")
		},
		"verifF64": func(e *Exec, fr *frame, args []Value) Value {
			if e.Cfg.Float == FloatFP {
				return e.newInput(fmt.Sprintf("f64_%d", e.nInputBlock()), FP(64), "f64")
			}
			return e.newInput(fmt.Sprintf("r64_%d", e.nInputBlock()), RealSort, "f64")
		},
		"verifAssume": func(e *Exec, fr *frame, args []Value) Value {
			c := args[0].(*Term)
			if c.IsConst() {
				if c.C == 0 {
					panic(pathAbort{"assume(false)"})
				}
				return nil
			}
			if r := e.check(c); r == Unsat {
				panic(pathAbort{"assumption infeasible"})
			}
			e.assume(c)
			return nil
		},
		"verifAssert": func(e *Exec, fr *frame, args []Value) Value {
			label, _ := e.concreteString(args[1].(StringV))
			e.Assert(args[0].(*Term), label)
			return nil
		},
		"verifReach": func(e *Exec, fr *frame, args []Value) Value {
			label, _ := e.concreteString(args[0].(StringV))
			e.reaches[label] = true
			return nil
		},
		"verifChoice": func(e *Exec, fr *frame, args []Value) Value {
			n := e.Concretize(args[0].(*Term), "verifChoice bound")
			v := e.newInput(fmt.Sprintf("choice_%d", e.nInputBlock()), BV(64), "choice")
			e.assume(e.B.BvCmp(OBvUlt, v, e.B.BVConst(n, 64)))
			return e.B.BVConst(e.Concretize(v, "verifChoice"), 64)
		},
		"verifConcrete": func(e *Exec, fr *frame, args []Value) Value {
			t := args[0].(*Term)
			return e.B.BVConst(e.Concretize(t, "verifConcrete"), t.Sort.W)
		},
		"verifAnd": func(e *Exec, fr *frame, args []Value) Value { return e.B.And(args[0].(*Term), args[1].(*Term)) },
		"verifOr":  func(e *Exec, fr *frame, args []Value) Value { return e.B.Or(args[0].(*Term), args[1].(*Term)) },
		"verifImplies": func(e *Exec, fr *frame, args []Value) Value {
			return e.B.Implies(args[0].(*Term), args[1].(*Term))
		},
		"verifIteU32": func(e *Exec, fr *frame, args []Value) Value {
			return e.B.Ite(args[0].(*Term), args[1].(*Term), args[2].(*Term))
		},
		"verifEqBytes": func(e *Exec, fr *frame, args []Value) Value {
			a, b := args[0].(*SliceV), args[1].(*SliceV)
			if !a.Len.IsConst() || !b.Len.IsConst() {
				if !e.Decide(e.B.Eq(a.Len, b.Len)) {
					return e.B.Bool(false)
				}
			} else if a.Len.C != b.Len.C {
				return e.B.Bool(false)
			}
			n := int(e.Concretize(a.Len, "verifEqBytes length"))
			r := e.B.Bool(true)
			for i := 0; i < n; i++ {
				r = e.B.And(r, e.B.Eq(a.A[i].(*Term), b.A[i].(*Term)))
			}
			return r
		},
		"verifSameBytes": func(e *Exec, fr *frame, args []Value) Value {
			a, b := args[0].(*SliceV), args[1].(*SliceV)
			if !a.Len.IsConst() || !b.Len.IsConst() || a.Len.C != b.Len.C {
				return e.B.Bool(false)
			}
			for i := 0; i < int(a.Len.C); i++ {
				if a.A[i] != b.A[i] {
					return e.B.Bool(false)
				}
			}
			return e.B.Bool(true)
		},
		"verifSameF32": func(e *Exec, fr *frame, args []Value) Value { return e.B.Eq(args[0].(*Term), args[1].(*Term)) },
		"verifSameF64": func(e *Exec, fr *frame, args []Value) Value { return e.B.Eq(args[0].(*Term), args[1].(*Term)) },
		"verifLogBegin": func(e *Exec, fr *frame, args []Value) Value {
			e.logSeg, _ = e.concreteString(args[0].(StringV))
			e.logging = true
			e.logCount = nil
			return nil
		},
		"verifLogEnd": func(e *Exec, fr *frame, args []Value) Value {
			e.logging = false
			return nil
		},
		"verifPush": func(e *Exec, fr *frame, args []Value) Value {
			e.scopes = append(e.scopes, len(e.pcs))
			return nil
		},
		"verifPop": func(e *Exec, fr *frame, args []Value) Value {
			// leaving a scope forgets the assumptions made inside it (only weakens
			// the path condition for what follows: sound)
			n := e.scopes[len(e.scopes)-1]
			e.scopes = e.scopes[:len(e.scopes)-1]
			e.pcs = e.pcs[:n]
			e.known = map[int]bool{}
			e.model = nil
			e.relVars, e.relSeen = nil, nil
			for _, c := range e.pcs {
				e.noteVars(c)
			}
			e.roundings = nil
			return nil
		},
		"verifCbrt": func(e *Exec, fr *frame, args []Value) Value { return e.cubeRoot(args[0].(*Term)) },
		"verifIsSymbolic": func(e *Exec, fr *frame, args []Value) Value { return e.B.Bool(true) },
		"verifSteps": func(e *Exec, fr *frame, args []Value) Value { return e.mkInt(e.steps) },
		"verifAllocated": func(e *Exec, fr *frame, args []Value) Value { return e.mkInt(e.allocated) },
		"verifSetBudget": func(e *Exec, fr *frame, args []Value) Value {
			// verifSetBudget(allocBytes, steps): budgets relative to now
			a := e.concreteInt(args[0], "alloc budget")
			s := e.concreteInt(args[1], "step budget")
			if a > 0 {
				e.Cfg.AllocBudget = e.allocated + a
			} else {
				e.Cfg.AllocBudget = 0
			}
			if s > 0 {
				e.Cfg.StepBudget = e.steps + s
			} else {
				e.Cfg.StepBudget = 0
			}
			return nil
		},
		"verifSprintfIs": func(e *Exec, fr *frame, args []Value) Value {
			if len(e.fmtCalls) == 0 {
				return e.B.Bool(false)
			}
			fc := e.fmtCalls[len(e.fmtCalls)-1]
			want, _ := e.concreteString(args[1].(StringV))
			if fc.Format != want {
				return e.B.Bool(false)
			}
			wargs := e.variadicArgs(args[2])
			if len(wargs) != len(fc.Args) {
				return e.B.Bool(false)
			}
			r := e.B.Bool(true)
			for i := range wargs {
				a, b := wargs[i].(IfaceV), fc.Args[i].(IfaceV)
				if a.T == nil || b.T == nil || !types.Identical(a.T, b.T) {
					return e.B.Bool(false)
				}
				r = e.B.And(r, e.equals(a.T, a.V, b.V))
			}
			e.noteAssumption("fmt.Sprintf/Errorf are stubs: format string and argument terms are compared, %d rendering is trusted")
			return r
		},
		"verifTimeIs": func(e *Exec, fr *frame, args []Value) Value {
			if len(e.timeDates) == 0 {
				return e.B.Bool(false)
			}
			td := e.timeDates[len(e.timeDates)-1]
			r := e.B.Bool(true)
			for i := 0; i < 6; i++ {
				r = e.B.And(r, e.B.Eq(td[i].(*Term), args[1+i].(*Term)))
			}
			// nsec == 0
			r = e.B.And(r, e.B.Eq(td[6].(*Term), e.mkInt(0)))
			e.noteAssumption("time.Date is a stub: its argument terms are compared (UTC location not checked symbolically)")
			return r
		},
		"verifFmtCount": func(e *Exec, fr *frame, args []Value) Value { return e.mkInt(int64(len(e.fmtCalls))) },
	}
}

func (e *Exec) nInputBlock() int {
	e.nInput++
	return e.nInput
}

func (e *Exec) newInput(name string, s Sort, tag string) *Term {
	t := e.B.Var(name, s)
	e.inputs = append(e.inputs, t)
	e.inputTags = append(e.inputTags, tag)
	return t
}

// newRealInt creates an integer input carried as a real (to_real of an Int
// variable) in the range [0, max]; used by real-arithmetic harnesses so that no
// bit-vector/real mixing (bv2nat) reaches the solver.
func (e *Exec) newRealInt(name string, max int64, tag string) *Term {
	v := e.B.Var(name, IntSort)
	e.inputs = append(e.inputs, v)
	e.inputTags = append(e.inputTags, tag)
	r := e.B.IntToReal(v)
	zero := e.B.RealConst(new(big.Rat))
	e.assume(e.B.And(e.B.RCmp(ORLe, zero, r), e.B.RCmp(ORLe, r, e.B.RealConst(big.NewRat(max, 1)))))
	return r
}

func (e *Exec) noteAssumption(s string) {
	if e.assumptions == nil {
		e.assumptions = map[string]bool{}
	}
	e.assumptions[s] = true
}

// Assert checks that c holds on every model of the current path.
func (e *Exec) Assert(c *Term, label string) {
	e.nAsserts++
	if c.IsConst() {
		if c.C != 0 {
			e.nTrivial++
			return
		}
		e.recordViolation("assert", label, "assertion is constant false on this path", nil)
		panic(pathStop{})
	}
	neg := e.B.Not(c)
	var r Result
	if e.Cfg.OneShotAsserts {
		lits := append(append([]*Term{}, e.pcs...), e.ufFacts...)
		lits = append(lits, neg)
		r, _ = e.S.OneShot(lits, nil, e.S.LongMs, nil)
		if r == Sat && len(e.ufOrder) > 0 {
			r = e.check(neg) // refine table facts through the incremental path
		}
	} else {
		r = e.check(neg)
	}
	switch r {
	case Unsat:
		e.known[c.ID] = true
		return
	case Unknown:
		e.unknowns++
		e.inconclusive = append(e.inconclusive, "assertion "+label+": solver returned unknown")
		if e.Cfg.StopAfterUnknown {
			panic(pathStop{})
		}
		return
	}
	e.recordViolation("assert", label, "", neg)
	if e.Cfg.StopAfterViolation {
		panic(pathStop{})
	}
	// continue on the side where the assertion holds
	if rr := e.check(c); rr == Unsat {
		panic(pathStop{})
	}
	e.assume(c)
}

// recordViolation extracts a model for PC ∧ extra and stores a violation.
func (e *Exec) recordViolation(kind, label, detail string, extra *Term) {
	v := &Violation{Kind: kind, Label: label, Detail: detail, Harness: e.harness, Path: append([]Decision(nil), e.trace...)}
	if e.tracker != nil && !e.tracker.wantModel(kind+"|"+label) {
		v.Detail += " (model omitted: same violation already recorded with models)"
		e.violations = append(e.violations, v)
		return
	}
	var r Result
	var vals []ModelValue
	var lits []*Term
	if extra != nil {
		lits = append(lits, extra)
	}
	// An assertion that is constant false on this path (e.g. a Sprintf whose format string
	// differs from the specified one) is violated by every input of the path; natively the
	// difference may only show for some of them (%x and %d agree below 10). As for budget
	// violations, take the witness with the free input words maximised.
	if kind == "steps" || kind == "alloc" || (kind == "assert" && extra == nil && e.Cfg.Float == FloatFP) {
		// a resource-budget violation: the solver's model tends to be the smallest input
		// that crosses the symbolic accounting threshold, which the native accounting
		// (allocator size classes, wall clock) may not cross. Push the witness away from
		// the threshold: greedily maximise the input words the path condition leaves free
		// (hostile length/count fields), most significant input first.
		tried := 0
		for _, in := range e.inputs {
			if in.Sort.K != SBV {
				continue
			}
			mx := e.B.Eq(in, e.B.BVConst(^uint64(0)>>(64-uint(in.Sort.W)), in.Sort.W))
			if !e.relSeen[in.ID] {
				// not mentioned by the path condition at all: free, no query needed
				lits = append(lits, mx)
				continue
			}
			if tried >= 48 {
				continue
			}
			tried++
			if e.check(append(append([]*Term(nil), lits...), mx)...) == Sat {
				lits = append(lits, mx)
			}
		}
	}
	if e.Cfg.Float == FloatReal || e.Cfg.Float == FloatRErr {
		// Real-valued models are replayed with float32/float64 inputs. A model on the
		// boundary of an assumption, or one that needs a value no float has, is lost in
		// the conversion. Prefer a model whose real inputs lie on a dyadic grid
		// (k / 2^16, failing that k / 2^22, then k / 2^24: float32-representable in
		// the harness ranges); fall back to the unconstrained model.
		for _, sh := range []int64{1 << 16, 1 << 22, 1 << 24} {
			grid := append([]*Term(nil), lits...)
			n := 0
			for _, in := range e.inputs {
				if in.Sort.K != SReal {
					continue
				}
				n++
				k := e.B.Var(fmt.Sprintf("grid%d!%s", sh, in.Name), IntSort)
				grid = append(grid, e.B.Eq(e.B.RBin(ORMul, in, e.B.RealConst(big.NewRat(sh, 1))), e.B.IntToReal(k)))
			}
			if n == 0 {
				break
			}
			save := e.S.LongMs
			if e.S.LongMs > 30000 {
				e.S.LongMs = 30000
			}
			gr, gvals := e.S.OneShot(append(append(append([]*Term(nil), e.pcs...), e.ufFacts...), grid...), e.inputs, e.S.LongMs, nil)
			e.S.LongMs = save
			if gr == Sat {
				r, vals = gr, gvals
				break
			}
		}
	}
	if r != Sat {
		r, vals = e.checkVals(e.inputs, lits...)
	}
	if r == Sat {
		v.HasModel = true
		for i, in := range e.inputs {
			v.Inputs = append(v.Inputs, InputVal{Name: in.Name, Tag: e.inputTags[i], Sort: in.Sort, Val: vals[i]})
		}
	} else {
		v.Detail += fmt.Sprintf(" (model unavailable: %v)", r)
	}
	e.violations = append(e.violations, v)
}

var _ = types.Typ

// violTracker limits model extraction for repeated violations of one label.
type violTracker struct {
	mu   sync.Mutex
	seen map[string]int
}

func (t *violTracker) wantModel(key string) bool {
	t.mu.Lock()
	defer t.mu.Unlock()
	t.seen[key]++
	return t.seen[key] <= 3
}
