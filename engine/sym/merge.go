package sym

import (
	"go/types"
	"strings"

	"golang.org/x/tools/go/ssa"
)

// Function-level state merging (DESIGN 2.3 addendum): a call to a side-effect
// free function of an allow-listed package is explored locally over all its
// feasible paths and its results are merged into one value with ite-terms, so
// that per-pixel data-dependent branches in colour conversion code do not
// multiply the number of global paths.

type mergeAbort struct{ why string }

var mergePkgs = map[string]bool{"image/color": true}

func (e *Exec) mergeCandidate(fn *ssa.Function) bool {
	if e.merging > 0 || e.Cfg.NoMerge || fn.Pkg == nil || fn.Blocks == nil {
		return false
	}
	if !mergePkgs[fn.Pkg.Pkg.Path()] && !e.Cfg.MergeFuncs[fn.String()] {
		return false
	}
	if len(fn.Blocks) < 2 {
		return false
	}
	return mergeableResult(fn.Signature.Results())
}

func mergeableType(t types.Type) bool {
	switch t := t.Underlying().(type) {
	case *types.Basic:
		return t.Info()&(types.IsBoolean|types.IsInteger|types.IsFloat|types.IsString) != 0
	case *types.Struct:
		for i := 0; i < t.NumFields(); i++ {
			if !mergeableType(t.Field(i).Type()) {
				return false
			}
		}
		return true
	case *types.Array:
		return mergeableType(t.Elem())
	case *types.Interface:
		return true
	}
	return false
}

func mergeableResult(tup *types.Tuple) bool {
	if tup.Len() == 0 {
		return false
	}
	for i := 0; i < tup.Len(); i++ {
		if !mergeableType(tup.At(i).Type()) {
			return false
		}
	}
	return true
}

// localRoot reports whether addr is derived from an Alloc of the current
// function through FieldAddr/IndexAddr only.
func localRoot(addr ssa.Value) bool {
	for {
		switch a := addr.(type) {
		case *ssa.Alloc:
			return true
		case *ssa.FieldAddr:
			addr = a.X
		case *ssa.IndexAddr:
			if _, isPtr := a.X.Type().Underlying().(*types.Pointer); !isPtr {
				return false
			}
			addr = a.X
		default:
			return false
		}
	}
}

type mergeSub struct {
	cond *Term
	res  Value
}

func (e *Exec) callMerged(caller *frame, fn *ssa.Function, args []Value, env []Value) (result Value, ok bool) {
	sPrefix, sPos, sTrace, sForks := e.prefix, e.pos, e.trace, e.forks
	basePCs := len(e.pcs)
	sKnown := e.known
	sModel := e.model
	sRelVars, sRelSeen := e.relVars, e.relSeen
	restore := func() {
		e.prefix, e.pos, e.trace, e.forks = sPrefix, sPos, sTrace, sForks
		e.pcs = e.pcs[:basePCs]
		e.known = sKnown
		e.model = sModel
		e.relVars, e.relSeen = sRelVars, sRelSeen
	}
	baseDefs := len(e.defs)
	e.merging++
	defer func() { e.merging-- }()
	var subs []mergeSub
	work := [][]Decision{nil}
	for len(work) > 0 {
		lp := work[len(work)-1]
		work = work[:len(work)-1]
		e.prefix, e.pos, e.trace, e.forks = lp, 0, nil, nil
		e.pcs = e.pcs[:basePCs:basePCs]
		e.known = make(map[int]bool, len(sKnown)+8)
		for k, v := range sKnown {
			e.known[k] = v
		}
		if sModel != nil {
			e.model = make(Model, len(sModel))
			for k, v := range sModel {
				e.model[k] = v
			}
		} else {
			e.model = nil
		}
		e.relVars = sRelVars[:len(sRelVars):len(sRelVars)]
		e.relSeen = make(map[int]bool, len(sRelSeen))
		for k, v := range sRelSeen {
			e.relSeen[k] = v
		}
		res, good := e.runMergeSub(caller, fn, args, env)
		if !good || len(subs) >= 48 {
			restore()
			e.defs = e.defs[:baseDefs]
			return nil, false
		}
		cond := e.B.Bool(true)
		for _, c := range e.pcs[basePCs:] {
			cond = e.B.And(cond, c)
		}
		subs = append(subs, mergeSub{cond, res})
		work = append(work, e.forks...)
	}
	restore()
	if len(subs) == 0 {
		return nil, false
	}
	// definitional constraints introduced inside the sub-paths constrain fresh
	// variables only: keep them
	for _, d := range append([]*Term(nil), e.defs[baseDefs:]...) {
		e.assume(d)
	}
	merged := subs[len(subs)-1].res
	for i := len(subs) - 2; i >= 0; i-- {
		m, good := e.mergeVal(subs[i].cond, subs[i].res, merged)
		if !good {
			return nil, false
		}
		merged = m
	}
	e.mergedCalls++
	return merged, true
}

func (e *Exec) runMergeSub(caller *frame, fn *ssa.Function, args []Value, env []Value) (res Value, ok bool) {
	defer func() {
		if r := recover(); r != nil {
			switch r.(type) {
			case mergeAbort, targetPanic, pathAbort:
				res, ok = nil, false
			default:
				panic(r)
			}
		}
	}()
	cargs := make([]Value, len(args))
	for i, a := range args {
		cargs[i] = copyVal(a)
	}
	return e.callSSAraw(caller, fn, cargs, env), true
}

func (e *Exec) mergeVal(c *Term, a, b Value) (Value, bool) {
	switch av := a.(type) {
	case nil:
		return nil, b == nil
	case *Term:
		bv, ok := b.(*Term)
		if !ok {
			return nil, false
		}
		if av.Sort != bv.Sort {
			// an integer carried as a real against a bit-vector constant
			if av.Sort.K == SReal && bv.Sort.K == SBV && bv.IsConst() {
				bv = e.B.BvToReal(bv, false)
			} else if bv.Sort.K == SReal && av.Sort.K == SBV && av.IsConst() {
				av = e.B.BvToReal(av, false)
			} else {
				return nil, false
			}
		}
		if av.Op == ORatio || bv.Op == ORatio {
			an, ad := e.B.NumDen(av)
			bn, bd := e.B.NumDen(bv)
			return e.B.Ratio(e.B.Ite(c, an, bn), e.B.Ite(c, ad, bd)), true
		}
		return e.B.Ite(c, av, bv), true
	case StructV:
		bv, ok := b.(StructV)
		if !ok || len(av) != len(bv) {
			return nil, false
		}
		out := make(StructV, len(av))
		for i := range av {
			m, ok := e.mergeVal(c, av[i], bv[i])
			if !ok {
				return nil, false
			}
			out[i] = m
		}
		return out, true
	case ArrayV:
		bv, ok := b.(ArrayV)
		if !ok || len(av) != len(bv) {
			return nil, false
		}
		out := make(ArrayV, len(av))
		for i := range av {
			m, ok := e.mergeVal(c, av[i], bv[i])
			if !ok {
				return nil, false
			}
			out[i] = m
		}
		return out, true
	case TupleV:
		bv, ok := b.(TupleV)
		if !ok || len(av) != len(bv) {
			return nil, false
		}
		out := make(TupleV, len(av))
		for i := range av {
			m, ok := e.mergeVal(c, av[i], bv[i])
			if !ok {
				return nil, false
			}
			out[i] = m
		}
		return out, true
	case IfaceV:
		bv, ok := b.(IfaceV)
		if !ok {
			return nil, false
		}
		if av.T == nil || bv.T == nil {
			return a, av.T == nil && bv.T == nil
		}
		if !types.Identical(av.T, bv.T) {
			return nil, false
		}
		m, ok := e.mergeVal(c, av.V, bv.V)
		if !ok {
			return nil, false
		}
		return IfaceV{T: av.T, V: m}, true
	case StringV:
		bv, ok := b.(StringV)
		if !ok || len(av.B) != len(bv.B) {
			return nil, false
		}
		out := make([]*Term, len(av.B))
		for i := range av.B {
			out[i] = e.B.Ite(c, av.B[i], bv.B[i])
		}
		return StringV{B: out}, true
	case *Value:
		bv, ok := b.(*Value)
		return a, ok && av == bv
	}
	return nil, false
}

var _ = strings.HasPrefix
