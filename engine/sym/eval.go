package sym

// Concrete evaluation of bit-vector/boolean terms under a model; used to
// decide which side of a branch the cached model already witnesses, so that
// only the other side needs a solver query.

type Model map[int]uint64 // var term ID -> value

type evalCtx struct {
	m    Model
	memo map[int]uint64
	ok   bool
}

// EvalBV evaluates t under m; ok=false if t contains unsupported operators or
// variables that the model does not assign.
func EvalBV(t *Term, m Model) (uint64, bool) {
	c := &evalCtx{m: m, memo: map[int]uint64{}, ok: true}
	v := c.eval(t)
	return v, c.ok
}

func (c *evalCtx) eval(t *Term) uint64 {
	if !c.ok {
		return 0
	}
	if t.Op == OConst {
		if t.Sort.K == SBool || t.Sort.K == SBV {
			return t.C
		}
		c.ok = false
		return 0
	}
	if v, ok := c.memo[t.ID]; ok {
		return v
	}
	var r uint64
	switch t.Op {
	case OVar:
		v, ok := c.m[t.ID]
		if !ok {
			// a variable created after the model was read is not constrained
			// by the path condition the model satisfies: extend the model
			if t.Sort.K == SBV || t.Sort.K == SBool {
				v = 0
				c.m[t.ID] = 0
			} else {
				c.ok = false
			}
		}
		r = v
	case ONot:
		r = 1 - c.eval(t.Args[0])
	case OAnd:
		r = c.eval(t.Args[0]) & c.eval(t.Args[1])
	case OOr:
		r = c.eval(t.Args[0]) | c.eval(t.Args[1])
	case OIte:
		if c.eval(t.Args[0]) != 0 {
			r = c.eval(t.Args[1])
		} else {
			r = c.eval(t.Args[2])
		}
	case OEq:
		if t.Args[0].Sort.K != SBV && t.Args[0].Sort.K != SBool {
			c.ok = false
			return 0
		}
		if c.eval(t.Args[0]) == c.eval(t.Args[1]) {
			r = 1
		}
	case OBvAdd, OBvSub, OBvMul, OBvUDiv, OBvSDiv, OBvURem, OBvSRem, OBvAnd, OBvOr, OBvXor, OBvShl, OBvLshr, OBvAshr:
		x, y := c.eval(t.Args[0]), c.eval(t.Args[1])
		var b Builder
		v, ok := b.bvFold(t.Op, t.Sort.W, x, y)
		if !ok {
			c.ok = false
		}
		r = v
	case OBvNot:
		r = ^c.eval(t.Args[0]) & mask(t.Sort.W)
	case OBvNeg:
		r = (-c.eval(t.Args[0])) & mask(t.Sort.W)
	case OBvUlt:
		if c.eval(t.Args[0]) < c.eval(t.Args[1]) {
			r = 1
		}
	case OBvUle:
		if c.eval(t.Args[0]) <= c.eval(t.Args[1]) {
			r = 1
		}
	case OBvSlt:
		w := t.Args[0].Sort.W
		if sext(c.eval(t.Args[0]), w) < sext(c.eval(t.Args[1]), w) {
			r = 1
		}
	case OBvSle:
		w := t.Args[0].Sort.W
		if sext(c.eval(t.Args[0]), w) <= sext(c.eval(t.Args[1]), w) {
			r = 1
		}
	case OExtract:
		r = (c.eval(t.Args[0]) >> uint(t.P2)) & mask(t.P1-t.P2+1)
	case OConcat:
		r = c.eval(t.Args[0])<<uint(t.Args[1].Sort.W) | c.eval(t.Args[1])
	case OZeroExt:
		r = c.eval(t.Args[0])
	case OSignExt:
		r = uint64(sext(c.eval(t.Args[0]), t.Args[0].Sort.W)) & mask(t.Sort.W)
	default:
		c.ok = false
		return 0
	}
	c.memo[t.ID] = r
	return r
}
