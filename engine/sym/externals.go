package sym

import (
	"fmt"
	"go/token"
	"go/types"
	"math"
	"math/big"
	"strings"

	"golang.org/x/tools/go/ssa"
)

type hookFn = func(e *Exec, fr *frame, args []Value) Value

// HookFn is the exported name of the hook signature.
type HookFn = hookFn

// OpaqueV is an opaque value produced by a stub (time.Time, formatted string...).
type OpaqueV struct {
	Kind string
	Args []Value
	Fmt  string
}

func (e *Exec) lookupFunc(pkgPath, name string) *ssa.Function {
	for _, p := range e.Prog.AllPackages() {
		if p.Pkg.Path() == pkgPath {
			if f := p.Func(name); f != nil {
				return f
			}
		}
	}
	return nil
}

// newError builds an error value with real errors.New so that Error() works.
func (e *Exec) newError(msg string, payload ...Value) Value {
	f := e.lookupFunc("errors", "New")
	if f == nil {
		panic(errorf("errors.New not found"))
	}
	res := e.callSSA(nil, 0, f, []Value{e.mkString(msg)}, nil)
	return res
}

func defaultHooks() map[string]hookFn {
	h := map[string]hookFn{}

	// ---- fmt ----
	h["fmt.Errorf"] = func(e *Exec, fr *frame, args []Value) Value {
		fs, _ := e.concreteString(args[0].(StringV))
		e.countAlloc(int64(len(fs))+32, nil, nil)
		e.fmtCalls = append(e.fmtCalls, FmtCall{Fn: "Errorf", Format: fs, Args: e.variadicArgs(args[1])})
		return e.newError("fmt.Errorf(" + fs + ")")
	}
	h["fmt.Sprintf"] = func(e *Exec, fr *frame, args []Value) Value {
		fs, _ := e.concreteString(args[0].(StringV))
		e.countAlloc(int64(len(fs))+32, nil, nil)
		e.fmtCalls = append(e.fmtCalls, FmtCall{Fn: "Sprintf", Format: fs, Args: e.variadicArgs(args[1])})
		return e.mkString("fmt.Sprintf(" + fs + ")")
	}
	h["fmt.Sprint"] = func(e *Exec, fr *frame, args []Value) Value {
		return e.mkString("fmt.Sprint(...)")
	}
	h["fmt.Println"] = func(e *Exec, fr *frame, args []Value) Value {
		return TupleV{e.mkInt(0), IfaceV{}}
	}
	h["fmt.Printf"] = h["fmt.Println"]

	// ---- errors ----
	h["errors.Is"] = func(e *Exec, fr *frame, args []Value) Value {
		a, b := args[0].(IfaceV), args[1].(IfaceV)
		if a.T == nil || b.T == nil {
			return e.B.Bool(a.T == nil && b.T == nil)
		}
		if !types.Identical(a.T, b.T) {
			return e.B.Bool(false)
		}
		return e.equals(a.T, a.V, b.V)
	}

	// ---- strings.Builder (uses unsafe) ----
	h["(*strings.Builder).copyCheck"] = func(e *Exec, fr *frame, args []Value) Value { return nil }
	h["(*strings.Builder).String"] = func(e *Exec, fr *frame, args []Value) Value {
		p := args[0].(*Value)
		st := (*p).(StructV)
		// fields: addr *Builder, buf []byte
		buf := st[1].(*SliceV)
		n := int(e.Concretize(buf.Len, "strings.Builder length"))
		bs := make([]*Term, n)
		for i := 0; i < n; i++ {
			bs[i] = buf.A[i].(*Term)
		}
		return StringV{B: bs}
	}

	// ---- sync ----
	nop := func(e *Exec, fr *frame, args []Value) Value { return nil }
	h["(*sync.Mutex).Lock"] = func(e *Exec, fr *frame, args []Value) Value {
		e.syncEvent("lock", args[0].(*Value))
		return nil
	}
	h["(*sync.Mutex).Unlock"] = func(e *Exec, fr *frame, args []Value) Value {
		e.syncEvent("unlock", args[0].(*Value))
		return nil
	}
	h["(*sync.RWMutex).Lock"] = h["(*sync.Mutex).Lock"]
	h["(*sync.RWMutex).Unlock"] = h["(*sync.Mutex).Unlock"]
	h["(*sync.RWMutex).RLock"] = h["(*sync.Mutex).Lock"]
	h["(*sync.RWMutex).RUnlock"] = h["(*sync.Mutex).Unlock"]
	h["(*sync.WaitGroup).Add"] = nop
	h["(*sync.WaitGroup).Done"] = func(e *Exec, fr *frame, args []Value) Value {
		e.syncEvent("wg.done", args[0].(*Value))
		return nil
	}
	h["(*sync.WaitGroup).Wait"] = func(e *Exec, fr *frame, args []Value) Value {
		e.syncEvent("wg.wait", args[0].(*Value))
		return nil
	}
	h["(*sync.Once).Do"] = func(e *Exec, fr *frame, args []Value) Value {
		p := args[0].(*Value)
		if e.onceDone == nil {
			e.onceDone = map[*Value]bool{}
		}
		e.syncEvent("once.enter", p)
		if !e.onceDone[p] {
			e.onceDone[p] = true
			e.syncEvent("once.run", p)
			e.call(fr, 0, args[1], nil)
			e.syncEvent("once.done", p)
		}
		e.syncEvent("once.exit", p)
		return nil
	}
	h["(*sync.Pool).Get"] = func(e *Exec, fr *frame, args []Value) Value {
		p := args[0].(*Value)
		st := (*p).(StructV)
		// last field is New func() any
		nf := st[len(st)-1]
		if f, ok := nf.(*FuncV); ok && f != nil {
			return e.call(fr, 0, f, nil)
		}
		return IfaceV{}
	}
	h["(*sync.Pool).Put"] = nop

	// ---- sync/atomic: sequential semantics ----
	for _, ty := range []string{"Int32", "Int64", "Uint32", "Uint64", "Uintptr"} {
		ty := ty
		h["(*sync/atomic."+ty+").Load"] = func(e *Exec, fr *frame, args []Value) Value {
			st := (*args[0].(*Value)).(StructV)
			e.syncEvent("atomic.load", args[0].(*Value))
			return st[len(st)-1]
		}
		h["(*sync/atomic."+ty+").Store"] = func(e *Exec, fr *frame, args []Value) Value {
			st := (*args[0].(*Value)).(StructV)
			e.syncEvent("atomic.store", args[0].(*Value))
			st[len(st)-1] = args[1]
			return nil
		}
		h["(*sync/atomic."+ty+").Add"] = func(e *Exec, fr *frame, args []Value) Value {
			st := (*args[0].(*Value)).(StructV)
			e.syncEvent("atomic.rmw", args[0].(*Value))
			st[len(st)-1] = e.B.BvBin(OBvAdd, st[len(st)-1].(*Term), args[1].(*Term))
			return st[len(st)-1]
		}
		h["(*sync/atomic."+ty+").CompareAndSwap"] = func(e *Exec, fr *frame, args []Value) Value {
			st := (*args[0].(*Value)).(StructV)
			e.syncEvent("atomic.rmw", args[0].(*Value))
			if e.Decide(e.B.Eq(st[len(st)-1].(*Term), args[1].(*Term))) {
				st[len(st)-1] = args[2]
				return e.B.Bool(true)
			}
			return e.B.Bool(false)
		}
	}
	h["(*sync/atomic.Bool).Load"] = func(e *Exec, fr *frame, args []Value) Value {
		st := (*args[0].(*Value)).(StructV)
		return e.B.Not(e.B.Eq(st[len(st)-1].(*Term), e.B.BVConst(0, 32)))
	}
	h["(*sync/atomic.Bool).Store"] = func(e *Exec, fr *frame, args []Value) Value {
		st := (*args[0].(*Value)).(StructV)
		st[len(st)-1] = e.B.Ite(args[1].(*Term), e.B.BVConst(1, 32), e.B.BVConst(0, 32))
		return nil
	}

	// ---- math ----
	unary := func(name string, f func(float64) float64) {
		h["math."+name] = func(e *Exec, fr *frame, args []Value) Value {
			t := args[0].(*Term)
			if !t.IsConst() {
				return e.symMath(name, args)
			}
			return e.floatConst(f(e.constFloat(t)), 64)
		}
	}
	unary("Exp", math.Exp)
	unary("Log", math.Log)
	unary("Sqrt", math.Sqrt)
	unary("Floor", math.Floor)
	unary("Ceil", math.Ceil)
	unary("Abs", math.Abs)
	unary("Cbrt", math.Cbrt)
	// math.Max / math.Min (assembly on amd64): decided by forking on the comparison, in
	// whatever float semantics the run uses; NaN operands (bit-precise mode) give NaN, as
	// in the Go specification of these functions. Signed zeros are not distinguished.
	for _, mm := range []struct {
		name string
		op   token.Token
	}{{"Max", token.GTR}, {"Min", token.LSS}} {
		mm := mm
		h["math."+mm.name] = func(e *Exec, fr *frame, args []Value) Value {
			x, y := args[0].(*Term), args[1].(*Term)
			if x.IsConst() && y.IsConst() {
				if mm.name == "Max" {
					return e.floatConst(math.Max(e.constFloat(x), e.constFloat(y)), 64)
				}
				return e.floatConst(math.Min(e.constFloat(x), e.constFloat(y)), 64)
			}
			if x.Sort.K == SFP {
				if e.Decide(e.B.FpIsNaN(x)) {
					return x
				}
				if e.Decide(e.B.FpIsNaN(y)) {
					return y
				}
			}
			c := e.floatBinop(mm.op, 64, x, y, nil).(*Term)
			if e.Decide(c) {
				return x
			}
			return y
		}
	}
	h["math.Pow"] = func(e *Exec, fr *frame, args []Value) Value {
		x, y := args[0].(*Term), args[1].(*Term)
		if x.IsConst() && y.IsConst() {
			return e.floatConst(math.Pow(e.constFloat(x), e.constFloat(y)), 64)
		}
		return e.symMath("Pow", args)
	}
	h["math.IsNaN"] = func(e *Exec, fr *frame, args []Value) Value {
		t := args[0].(*Term)
		if t.Sort.K == SFP {
			return e.B.FpIsNaN(t)
		}
		return e.B.Bool(false)
	}
	h["math.IsInf"] = func(e *Exec, fr *frame, args []Value) Value {
		t := args[0].(*Term)
		if t.Sort.K == SFP {
			if t.IsConst() {
				s := int(sext(args[1].(*Term).C, 64))
				return e.B.Bool(math.IsInf(t.F, s))
			}
			panic(errorf("math.IsInf on symbolic value"))
		}
		return e.B.Bool(false)
	}
	h["math.Float32bits"] = func(e *Exec, fr *frame, args []Value) Value {
		t := args[0].(*Term)
		if t.IsConst() && t.Sort.K == SFP {
			return e.B.BVConst(uint64(math.Float32bits(float32(t.F))), 32)
		}
		panic(errorf("math.Float32bits on symbolic value"))
	}
	h["math.Float64bits"] = func(e *Exec, fr *frame, args []Value) Value {
		t := args[0].(*Term)
		if t.IsConst() && t.Sort.K == SFP {
			return e.B.BVConst(math.Float64bits(t.F), 64)
		}
		panic(errorf("math.Float64bits on symbolic value"))
	}

	// ---- time ----
	h["time.Date"] = func(e *Exec, fr *frame, args []Value) Value {
		e.timeDates = append(e.timeDates, args)
		tt := fr.fn.Signature.Results().At(0).Type()
		return e.zero(tt)
	}

	// ---- compress/zlib: stub (see DESIGN §2.4) ----

	// ---- runtime ----
	h["runtime.NumCPU"] = func(e *Exec, fr *frame, args []Value) Value { return e.mkInt(4) }
	h["runtime.GOMAXPROCS"] = func(e *Exec, fr *frame, args []Value) Value { return e.mkInt(4) }
	h["runtime.KeepAlive"] = nop

	// ---- internal/bytealg ----
	h["internal/bytealg.IndexByte"] = func(e *Exec, fr *frame, args []Value) Value {
		s := args[0].(*SliceV)
		c := args[1].(*Term)
		n := int(e.Concretize(s.Len, "IndexByte length"))
		for i := 0; i < n; i++ {
			if e.Decide(e.B.Eq(s.A[i].(*Term), c)) {
				return e.mkInt(int64(i))
			}
		}
		return e.mkInt(-1)
	}
	h["internal/bytealg.IndexByteString"] = func(e *Exec, fr *frame, args []Value) Value {
		s := args[0].(StringV)
		c := args[1].(*Term)
		for i := range s.B {
			if e.Decide(e.B.Eq(s.B[i], c)) {
				return e.mkInt(int64(i))
			}
		}
		return e.mkInt(-1)
	}
	h["internal/bytealg.MakeNoZero"] = func(e *Exec, fr *frame, args []Value) Value {
		n := int(e.Concretize(args[0].(*Term), "MakeNoZero length"))
		cells := make([]Value, n)
		for i := range cells {
			cells[i] = e.B.BVConst(0, 8)
		}
		e.countAlloc(int64(n), nil, nil)
		return e.mkSlice(cells)
	}
	h["internal/bytealg.Equal"] = func(e *Exec, fr *frame, args []Value) Value {
		a, b := args[0].(*SliceV), args[1].(*SliceV)
		if !e.Decide(e.B.Eq(a.Len, b.Len)) {
			return e.B.Bool(false)
		}
		n := int(e.Concretize(a.Len, "Equal length"))
		r := e.B.Bool(true)
		for i := 0; i < n; i++ {
			r = e.B.And(r, e.B.Eq(a.A[i].(*Term), b.A[i].(*Term)))
		}
		return r
	}
	return h
}

type FmtCall struct {
	Fn     string
	Format string
	Args   []Value
}

func (e *Exec) variadicArgs(v Value) []Value {
	sl, ok := v.(*SliceV)
	if !ok || sl == nil {
		return nil
	}
	n := int(e.Concretize(sl.Len, "variadic length"))
	out := make([]Value, n)
	for i := 0; i < n; i++ {
		out[i] = sl.A[i]
	}
	return out
}

func (e *Exec) constFloat(t *Term) float64 {
	if t.Sort.K == SFP {
		return t.F
	}
	f, _ := t.R.Float64()
	return f
}

// cubeRoot returns a witness c with c^3 = t (exact real mode). For a ratio n/d the
// witness satisfies c^3 * d = n.
func (e *Exec) cubeRoot(t *Term) *Term {
	if t.IsConst() {
		f, _ := t.R.Float64()
		return e.floatConst(math.Cbrt(f), 64)
	}
	if c, ok := e.cbrts[t.ID]; ok {
		return c
	}
	if e.cbrts == nil {
		e.cbrts = map[int]*Term{}
	}
	c := e.B.Fresh("cbrt", RealSort)
	n, d := e.B.NumDen(t)
	c3 := e.B.RBin(ORMul, c, e.B.RBin(ORMul, c, c))
	e.assumeDef(e.B.Eq(e.B.RBin(ORMul, c3, d), n))
	e.cbrts[t.ID] = c
	e.noteAssumption("math.Pow(x, 1/3) and math.Pow(x, 3) on symbolic arguments are exact (cube root as a witness c with c^3 = x); the accuracy of the platform's Pow (about 1e-16 relative) is outside the claim")
	return c
}

// symMath handles math functions on symbolic arguments (real modes only).
func (e *Exec) symMath(name string, args []Value) Value {
	if name == "Pow" && e.Cfg.Float != FloatFP {
		x, y := args[0].(*Term), args[1].(*Term)
		if y.IsConst() {
			yf, _ := y.R.Float64()
			if yf == 3 {
				if x.Op == ORatio {
					n, d := e.B.NumDen(x)
					cube := func(p *Term) *Term { return e.B.RBin(ORMul, p, e.B.RBin(ORMul, p, p)) }
					return e.B.Ratio(cube(n), cube(d))
				}
				return e.B.RBin(ORMul, x, e.B.RBin(ORMul, x, x))
			}
			if yf == 1.0/3.0 {
				// obligation: the base is positive here (else math.Pow returns NaN)
				zero := e.B.RealConst(new(big.Rat))
				neg := e.floatBinop(token.LEQ, 64, x, zero, nil).(*Term)
				if r := e.check(neg); r != Unsat {
					e.recordViolation("nan", "math.Pow(x, 1/3) with x <= 0", "a non-positive base reaches the cube root (NaN for negative x)", neg)
					e.assume(e.B.Not(neg))
				}
				return e.cubeRoot(x)
			}
		}
	}
	if name == "Cbrt" && e.Cfg.Float != FloatFP {
		// the real cube root exists and is unique for every real argument (no NaN obligation)
		return e.cubeRoot(args[0].(*Term))
	}
	if e.mathHook != nil {
		if v, ok := e.mathHook(e, name, args); ok {
			return v
		}
	}
	panic(errorf("math.%s on symbolic argument is not modelled", name))
}

func (e *Exec) syncEvent(kind string, obj *Value) {
	if !e.logging {
		return
	}
	e.accessLog = append(e.accessLog, Access{Seg: e.logSeg, Loc: obj, Go: e.curGo, Seq: len(e.accessLog), Sync: kind})
}

// ---------------- zlib stub ----------------
//
// zlib.NewReader(r) is replaced by the harness-defined Go function
// verifZlibStub(r io.Reader) (io.ReadCloser, error) of the calling package
// (see DESIGN 2.4): it drains r, records what it was given and yields fresh
// symbolic output or an error according to a symbolic choice. Being ordinary
// harness Go code it is executed symbolically like everything else.

func zlibNewReaderStub(e *Exec, fr *frame, args []Value) Value {
	var pkg *ssa.Package
	for c := fr.caller; c != nil; c = c.caller {
		if c.fn.Pkg != nil {
			pkg = c.fn.Pkg
			break
		}
	}
	if pkg == nil {
		panic(errorf("zlib stub: no calling package"))
	}
	f := pkg.Func("verifZlibStub")
	if f == nil {
		panic(errorf("zlib.NewReader reached but package %s has no verifZlibStub", pkg.Pkg.Path()))
	}
	e.noteAssumption("compress/zlib.NewReader replaced by harness stub verifZlibStub (inflate not modelled)")
	return e.callSSA(fr, 0, f, args, nil)
}

var _ = strings.HasPrefix
var _ = fmt.Sprintf

// UFColorHook replaces a func(color.Color) color.RGBA64 by four uninterpreted
// functions of the colour's RGBA() components.
func UFColorHook(tag string) func(e *Exec, fr *frame, args []Value) Value {
	return func(e *Exec, fr *frame, args []Value) Value {
		c := args[0].(IfaceV)
		m := e.Prog.LookupMethod(c.T, nil, "RGBA")
		if m == nil {
			panic(errorf("UFColorHook: no RGBA method on %v", c.T))
		}
		saved := e.merging
		e.merging = 0
		comps := e.callSSA(fr, 0, m, []Value{c.V}, nil).(TupleV)
		e.merging = saved
		ts := make([]*Term, 4)
		for i := range ts {
			ts[i] = comps[i].(*Term)
		}
		out := make(StructV, 4)
		for i, ch := range []string{"R", "G", "B", "A"} {
			out[i] = e.B.App(tag+"."+ch, BV(16), ts...)
		}
		e.noteAssumption("per-colour function " + tag + " replaced by uninterpreted functions of the colour (wiring check; its arithmetic is C01/C02/C14's subject)")
		return out
	}
}
