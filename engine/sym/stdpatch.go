package sym

import (
	"fmt"
	"os"
	"path/filepath"
	"runtime"
	"strings"
)

// Standard-library patches applied identically to the symbolic program
// (go/packages overlay) and to native replays (go test -overlay). They only
// add hook variables; with the hook unset the library behaves as before.
type stdPatch struct {
	Rel, Find, Repl string
}

var stdPatches = []stdPatch{
	{
		Rel:  "compress/zlib/reader.go",
		Find: "func NewReader(r io.Reader) (io.ReadCloser, error) {",
		Repl: "// VerifHook, when set, replaces NewReader (verification stub: inflate is not modelled).\nvar VerifHook func(r io.Reader) (io.ReadCloser, error)\n\nfunc NewReader(r io.Reader) (io.ReadCloser, error) {\n\tif VerifHook != nil {\n\t\treturn VerifHook(r)\n\t}",
	},
}

func goroot() string {
	if g := os.Getenv("GOROOT"); g != "" {
		return g
	}
	return runtime.GOROOT()
}

// StdOverlay returns virtual path -> patched content.
func StdOverlay() (map[string][]byte, error) {
	out := map[string][]byte{}
	for _, p := range stdPatches {
		path := filepath.Join(goroot(), "src", p.Rel)
		data, err := os.ReadFile(path)
		if err != nil {
			return nil, err
		}
		s := string(data)
		if strings.Count(s, p.Find) != 1 {
			return nil, fmt.Errorf("std patch for %s does not apply", p.Rel)
		}
		out[path] = []byte(strings.Replace(s, p.Find, p.Repl, 1))
	}
	return out, nil
}
