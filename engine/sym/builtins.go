package sym

import (
	"fmt"
	"go/token"
	"go/types"

	"golang.org/x/tools/go/ssa"
)

func (e *Exec) callBuiltin(caller *frame, pos token.Pos, fn *ssa.Builtin, args []Value) Value {
	switch fn.Name() {
	case "append":
		return e.builtinAppend(fn, args)
	case "copy":
		return e.builtinCopy(args[0].(*SliceV), args[1])
	case "len":
		switch x := args[0].(type) {
		case StringV:
			return e.mkInt(int64(len(x.B)))
		case *SliceV:
			return x.Len
		case ArrayV:
			return e.mkInt(int64(len(x)))
		case *Value:
			if x == nil {
				// len of nil *array is the array length (static); SSA folds it normally
				panic(errorf("len of nil array pointer"))
			}
			return e.mkInt(int64(len((*x).(ArrayV))))
		case *MapV:
			if x == nil {
				return e.mkInt(0)
			}
			n := 0
			for _, a := range x.Alive {
				if a {
					n++
				}
			}
			return e.mkInt(int64(n))
		}
		panic(errorf("len of %T", args[0]))
	case "cap":
		switch x := args[0].(type) {
		case *SliceV:
			return x.Cap
		case ArrayV:
			return e.mkInt(int64(len(x)))
		case *Value:
			return e.mkInt(int64(len((*x).(ArrayV))))
		}
		panic(errorf("cap of %T", args[0]))
	case "delete":
		m := args[0].(*MapV)
		if m != nil {
			if i := e.mapFind(m, args[1]); i >= 0 {
				m.Alive[i] = false
			}
		}
		return nil
	case "panic":
		panic(targetPanic{args[0]})
	case "recover":
		return e.doRecover(caller)
	case "print", "println":
		return nil
	case "min", "max":
		res := args[0].(*Term)
		sig := fn.Type().(*types.Signature)
		t := sig.Params().At(0).Type()
		for _, a := range args[1:] {
			at := a.(*Term)
			var lt *Term
			if fn.Name() == "min" {
				lt = e.binop(token.LSS, t, at, res, nil).(*Term)
			} else {
				lt = e.binop(token.GTR, t, at, res, nil).(*Term)
			}
			res = e.B.Ite(lt, at, res)
		}
		return res
	case "clear":
		switch x := args[0].(type) {
		case *MapV:
			if x != nil {
				for i := range x.Alive {
					x.Alive[i] = false
				}
			}
		default:
			panic(errorf("clear of %T", x))
		}
		return nil
	case "ssa:wrapnilchk":
		recv := args[0]
		if p, ok := recv.(*Value); ok && p == nil {
			panic(e.runtimePanic("value method called using nil pointer"))
		}
		return recv
	}
	panic(errorf("unsupported builtin %s", fn.Name()))
}

func growCap(old, need int) int {
	newcap := old
	doublecap := newcap + newcap
	if need > doublecap {
		return need
	}
	const threshold = 256
	if old < threshold {
		if doublecap < 8 && need <= 8 {
			return 8
		}
		return doublecap
	}
	for newcap < need {
		newcap += (newcap + 3*threshold) >> 2
	}
	return newcap
}

func (e *Exec) builtinAppend(fn *ssa.Builtin, args []Value) Value {
	s := args[0].(*SliceV)
	var add []Value
	switch t := args[1].(type) {
	case *SliceV:
		n := int(e.Concretize(t.Len, "length of appended slice"))
		if n > len(t.A) {
			panic(boundExhausted{"append source beyond materialised cells"})
		}
		add = make([]Value, n)
		for i := 0; i < n; i++ {
			add[i] = copyVal(t.A[i])
		}
	case StringV:
		add = make([]Value, len(t.B))
		for i, b := range t.B {
			add[i] = b
		}
	default:
		panic(errorf("append of %T", t))
	}
	if len(add) == 0 {
		return s
	}
	ln := int(e.Concretize(s.Len, "length of slice appended to"))
	cp := int(e.Concretize(s.Cap, "capacity of slice appended to"))
	if ln+len(add) <= cp {
		if ln+len(add) > len(s.A) {
			panic(boundExhausted{"append beyond materialised cells"})
		}
		copy(s.A[ln:], add)
		return &SliceV{A: s.A, Len: e.mkInt(int64(ln + len(add))), Cap: s.Cap}
	}
	sig := fn.Type().(*types.Signature)
	et := sig.Params().At(0).Type().Underlying().(*types.Slice).Elem()
	ncap := growCap(cp, ln+len(add))
	esz := e.elemSize(et)
	e.countAlloc(int64(ncap)*esz, nil, nil)
	cells := make([]Value, ncap)
	copy(cells, s.A[:ln])
	copy(cells[ln:], add)
	z := e.zero(et)
	_, scalar := z.(*Term)
	for i := ln + len(add); i < ncap; i++ {
		if scalar {
			cells[i] = z
		} else {
			cells[i] = e.zero(et)
		}
	}
	return &SliceV{A: cells, Len: e.mkInt(int64(ln + len(add))), Cap: e.mkInt(int64(ncap))}
}

// builtinCopy implements copy(dst, src) with possibly symbolic lengths.
func (e *Exec) builtinCopy(dst *SliceV, srcv Value) Value {
	var srcCells []Value
	var srcLen *Term
	switch s := srcv.(type) {
	case *SliceV:
		srcCells, srcLen = s.A, s.Len
	case StringV:
		srcCells = make([]Value, len(s.B))
		for i, b := range s.B {
			srcCells[i] = b
		}
		srcLen = e.mkInt(int64(len(s.B)))
	default:
		panic(errorf("copy from %T", srcv))
	}
	// n = min(len(dst), len(src))
	var n *Term
	if dst.Len.IsConst() && srcLen.IsConst() {
		n = dst.Len
		if srcLen.C < n.C {
			n = srcLen
		}
	} else if e.Decide(e.B.BvCmp(OBvSle, dst.Len, srcLen)) {
		n = dst.Len
	} else {
		n = srcLen
	}
	if n.IsConst() {
		k := int(n.C)
		if k > len(dst.A) || k > len(srcCells) {
			panic(boundExhausted{"copy beyond materialised cells"})
		}
		tmp := make([]Value, k)
		for i := 0; i < k; i++ {
			tmp[i] = copyVal(srcCells[i])
		}
		if e.logging {
			// the builtin reads and writes memory like k loads and stores (C11 access log;
			// logAccess keeps the first few per instruction)
			for i := 0; i < k && i < 6; i++ {
				if s, ok := srcv.(*SliceV); ok {
					e.logAccess(&s.A[i], false, e.lastInstr)
				}
				e.logAccess(&dst.A[i], true, e.lastInstr)
			}
		}
		copy(dst.A, tmp)
		return n
	}
	// symbolic count: bounded by the materialised parts
	k := len(dst.A)
	if len(srcCells) < k {
		k = len(srcCells)
	}
	// make sure n <= k is implied
	if r := e.check(e.B.BvCmp(OBvSlt, e.mkInt(int64(k)), n)); r != Unsat {
		// try to concretise instead
		c := int(e.Concretize(n, "copy count"))
		if c > k {
			panic(boundExhausted{"copy count beyond materialised cells"})
		}
		tmp := make([]Value, c)
		for i := 0; i < c; i++ {
			tmp[i] = copyVal(srcCells[i])
		}
		copy(dst.A, tmp)
		return e.mkInt(int64(c))
	}
	// tighten k: largest feasible n
	tmp := make([]*Term, k)
	for i := 0; i < k; i++ {
		sv, ok1 := srcCells[i].(*Term)
		dv, ok2 := dst.A[i].(*Term)
		if !ok1 || !ok2 {
			panic(errorf("symbolic-count copy of non-scalar elements"))
		}
		if sv == dv {
			tmp[i] = dv
			continue
		}
		tmp[i] = e.B.Ite(e.B.BvCmp(OBvSlt, e.mkInt(int64(i)), n), sv, dv)
	}
	for i := 0; i < k; i++ {
		dst.A[i] = tmp[i]
	}
	return n
}

var _ = fmt.Sprintf
