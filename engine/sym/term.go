// Package sym is a symbolic executor for go/ssa programs that emits SMT-LIB2.
package sym

import (
	"fmt"
	"math"
	"math/big"
	"strings"
)

type SortKind uint8

const (
	SBool SortKind = iota
	SBV
	SFP
	SReal
	SInt
)

type Sort struct {
	K SortKind
	W int // BV width; FP: 32 or 64
}

var BoolSort = Sort{SBool, 0}
var RealSort = Sort{SReal, 0}
var IntSort = Sort{SInt, 0}

func BV(w int) Sort { return Sort{SBV, w} }
func FP(w int) Sort { return Sort{SFP, w} }

func (s Sort) SMT() string {
	switch s.K {
	case SBool:
		return "Bool"
	case SBV:
		return fmt.Sprintf("(_ BitVec %d)", s.W)
	case SFP:
		if s.W == 32 {
			return "(_ FloatingPoint 8 24)"
		}
		return "(_ FloatingPoint 11 53)"
	case SReal:
		return "Real"
	case SInt:
		return "Int"
	}
	panic("bad sort")
}

type Op uint8

const (
	OConst Op = iota
	OVar
	ONot
	OAnd
	OOr
	OIte
	OEq
	OBvAdd
	OBvSub
	OBvMul
	OBvUDiv
	OBvSDiv
	OBvURem
	OBvSRem
	OBvAnd
	OBvOr
	OBvXor
	OBvNot
	OBvNeg
	OBvShl
	OBvLshr
	OBvAshr
	OBvUlt
	OBvUle
	OBvSlt
	OBvSle
	OExtract
	OConcat
	OZeroExt
	OSignExt
	OFpAdd
	OFpSub
	OFpMul
	OFpDiv
	OFpNeg
	OFpLt
	OFpLe
	OFpEq
	OFpIsNaN
	OFpIsInf
	OFpToFp   // fp -> fp (other precision), RNE
	OFpFromS  // signed bv -> fp RNE
	OFpFromU  // unsigned bv -> fp RNE
	OFpToS    // fp -> signed bv of width p1, RTZ
	OFpToU    // fp -> unsigned bv of width p1, RTZ
	OFpToReal // fp -> real
	ORAdd
	ORSub
	ORMul
	ORDiv
	ORNeg
	ORLt
	ORLe
	OBvToReal  // unsigned bv -> real
	OBvSToReal // signed bv -> real
	OApp       // uninterpreted function application (name)
	OIntToReal // Int -> Real
	ORatio     // exact mode: num/den kept apart (never reasoned about with a division operator)
)

var opNames = map[Op]string{
	ONot: "not", OAnd: "and", OOr: "or", OIte: "ite", OEq: "=",
	OBvAdd: "bvadd", OBvSub: "bvsub", OBvMul: "bvmul", OBvUDiv: "bvudiv", OBvSDiv: "bvsdiv",
	OBvURem: "bvurem", OBvSRem: "bvsrem", OBvAnd: "bvand", OBvOr: "bvor", OBvXor: "bvxor",
	OBvNot: "bvnot", OBvNeg: "bvneg", OBvShl: "bvshl", OBvLshr: "bvlshr", OBvAshr: "bvashr",
	OBvUlt: "bvult", OBvUle: "bvule", OBvSlt: "bvslt", OBvSle: "bvsle", OConcat: "concat",
	OFpAdd: "fp.add RNE", OFpSub: "fp.sub RNE", OFpMul: "fp.mul RNE", OFpDiv: "fp.div RNE", OFpNeg: "fp.neg",
	OFpLt: "fp.lt", OFpLe: "fp.leq", OFpEq: "fp.eq", OFpIsNaN: "fp.isNaN", OFpIsInf: "fp.isInfinite",
	OFpToReal: "fp.to_real", OIntToReal: "to_real", ORatio: "/",
	ORAdd:     "+", ORSub: "-", ORMul: "*", ORDiv: "/", ORNeg: "-", ORLt: "<", ORLe: "<=",
}

type Term struct {
	ID   int
	Op   Op
	Sort Sort
	Args []*Term
	C    uint64   // bool/bv constant
	F    float64  // fp constant
	R    *big.Rat // real constant
	Name string   // var / app name
	P1   int      // extract hi / ext amount / target width
	P2   int      // extract lo
	// emitted is managed by Solver (per-solver bitmap keyed by ID)
}

func (t *Term) IsConst() bool { return t.Op == OConst }

func (t *Term) String() string {
	return t.smtInline(3)
}

type nodeKey struct {
	op      Op
	k       SortKind
	w       int
	a, b, c int
	p1, p2  int
	name    string
}

type constKey struct {
	k    SortKind
	w    int
	bits uint64
}

// Builder creates hash-consed terms.
type Builder struct {
	nodes  map[nodeKey]*Term
	consts map[constKey]*Term
	rconst map[string]*Term
	vars   map[string]*Term
	nary   map[string]*Term
	all    []*Term
	fresh  int
}

func NewBuilder() *Builder {
	return &Builder{nodes: map[nodeKey]*Term{}, consts: map[constKey]*Term{}, rconst: map[string]*Term{}, vars: map[string]*Term{}, nary: map[string]*Term{}}
}

func (b *Builder) reg(t *Term) *Term {
	t.ID = len(b.all)
	b.all = append(b.all, t)
	return t
}

func mask(w int) uint64 {
	if w >= 64 {
		return ^uint64(0)
	}
	return (uint64(1) << uint(w)) - 1
}

func (b *Builder) BVConst(v uint64, w int) *Term {
	v &= mask(w)
	k := constKey{SBV, w, v}
	if t, ok := b.consts[k]; ok {
		return t
	}
	t := b.reg(&Term{Op: OConst, Sort: BV(w), C: v})
	b.consts[k] = t
	return t
}

func (b *Builder) Bool(v bool) *Term {
	var c uint64
	if v {
		c = 1
	}
	k := constKey{SBool, 0, c}
	if t, ok := b.consts[k]; ok {
		return t
	}
	t := b.reg(&Term{Op: OConst, Sort: BoolSort, C: c})
	b.consts[k] = t
	return t
}

func (b *Builder) FPConst(f float64, w int) *Term {
	if w == 32 {
		f = float64(float32(f))
	}
	bits := math.Float64bits(f)
	if f != f {
		bits = 0x7ff8000000000001
	}
	k := constKey{SFP, w, bits}
	if t, ok := b.consts[k]; ok {
		return t
	}
	t := b.reg(&Term{Op: OConst, Sort: FP(w), F: f})
	b.consts[k] = t
	return t
}

func (b *Builder) RealConst(r *big.Rat) *Term {
	k := r.RatString()
	if t, ok := b.rconst[k]; ok {
		return t
	}
	t := b.reg(&Term{Op: OConst, Sort: RealSort, R: new(big.Rat).Set(r)})
	b.rconst[k] = t
	return t
}

func (b *Builder) RealFromFloat(f float64) *Term {
	r := new(big.Rat)
	if r.SetFloat64(f) == nil {
		panic(engineError{"non-finite float constant in real mode"})
	}
	return b.RealConst(r)
}

func (b *Builder) Var(name string, s Sort) *Term {
	if t, ok := b.vars[name]; ok {
		if t.Sort != s {
			panic("var redeclared with other sort: " + name)
		}
		return t
	}
	t := b.reg(&Term{Op: OVar, Sort: s, Name: name})
	b.vars[name] = t
	return t
}

func (b *Builder) Fresh(prefix string, s Sort) *Term {
	b.fresh++
	return b.Var(fmt.Sprintf("%s!%d", prefix, b.fresh), s)
}

func (b *Builder) mk(op Op, s Sort, p1, p2 int, name string, args ...*Term) *Term {
	k := nodeKey{op: op, k: s.K, w: s.W, a: -1, b: -1, c: -1, p1: p1, p2: p2, name: name}
	if len(args) > 3 {
		var sb strings.Builder
		fmt.Fprintf(&sb, "%d|%d|%d|%s", op, s.K, s.W, name)
		for _, a := range args {
			fmt.Fprintf(&sb, "|%d", a.ID)
		}
		ks := sb.String()
		if t, ok := b.nary[ks]; ok {
			return t
		}
		t := b.reg(&Term{Op: op, Sort: s, Args: args, P1: p1, P2: p2, Name: name})
		b.nary[ks] = t
		return t
	}
	if len(args) > 0 {
		k.a = args[0].ID
	}
	if len(args) > 1 {
		k.b = args[1].ID
	}
	if len(args) > 2 {
		k.c = args[2].ID
	}
	if t, ok := b.nodes[k]; ok {
		return t
	}
	t := b.reg(&Term{Op: op, Sort: s, Args: args, P1: p1, P2: p2, Name: name})
	b.nodes[k] = t
	return t
}

// ---------- boolean ----------

func (b *Builder) Not(x *Term) *Term {
	if x.IsConst() {
		return b.Bool(x.C == 0)
	}
	if x.Op == ONot {
		return x.Args[0]
	}
	return b.mk(ONot, BoolSort, 0, 0, "", x)
}

func (b *Builder) And(x, y *Term) *Term {
	if x.IsConst() {
		if x.C == 0 {
			return x
		}
		return y
	}
	if y.IsConst() {
		if y.C == 0 {
			return y
		}
		return x
	}
	if x == y {
		return x
	}
	return b.mk(OAnd, BoolSort, 0, 0, "", x, y)
}

func (b *Builder) Or(x, y *Term) *Term {
	if x.IsConst() {
		if x.C != 0 {
			return x
		}
		return y
	}
	if y.IsConst() {
		if y.C != 0 {
			return y
		}
		return x
	}
	if x == y {
		return x
	}
	return b.mk(OOr, BoolSort, 0, 0, "", x, y)
}

func (b *Builder) AndN(xs ...*Term) *Term {
	r := b.Bool(true)
	for _, x := range xs {
		r = b.And(r, x)
	}
	return r
}

func (b *Builder) OrN(xs ...*Term) *Term {
	r := b.Bool(false)
	for _, x := range xs {
		r = b.Or(r, x)
	}
	return r
}

func (b *Builder) Implies(x, y *Term) *Term { return b.Or(b.Not(x), y) }

func (b *Builder) Ite(c, x, y *Term) *Term {
	if c.IsConst() {
		if c.C != 0 {
			return x
		}
		return y
	}
	if x == y {
		return x
	}
	if x.Sort != y.Sort {
		panic(fmt.Sprintf("ite sort mismatch %v %v", x.Sort, y.Sort))
	}
	if x.Sort.K == SBool {
		if x.IsConst() && y.IsConst() {
			if x.C != 0 {
				return c
			}
			return b.Not(c)
		}
	}
	return b.mk(OIte, x.Sort, 0, 0, "", c, x, y)
}

// Eq is SMT equality (for FP: structural equality, not fp.eq).
func (b *Builder) Eq(x, y *Term) *Term {
	if x.Sort != y.Sort {
		panic(fmt.Sprintf("eq sort mismatch %v %v: %v %v", x.Sort, y.Sort, x, y))
	}
	if x == y {
		return b.Bool(true)
	}
	if x.IsConst() && y.IsConst() {
		switch x.Sort.K {
		case SBool, SBV:
			return b.Bool(x.C == y.C)
		case SReal:
			return b.Bool(x.R.Cmp(y.R) == 0)
		case SFP:
			return b.Bool(false) // distinct hash-consed constants
		}
	}
	if x.Sort.K == SBool {
		if x.IsConst() {
			if x.C != 0 {
				return y
			}
			return b.Not(y)
		}
		if y.IsConst() {
			if y.C != 0 {
				return x
			}
			return b.Not(x)
		}
	}
	if x.ID > y.ID {
		x, y = y, x
	}
	return b.mk(OEq, BoolSort, 0, 0, "", x, y)
}

// ---------- bit-vectors ----------

func sext(v uint64, w int) int64 {
	if w >= 64 {
		return int64(v)
	}
	sh := uint(64 - w)
	return int64(v<<sh) >> sh
}

func (b *Builder) bvFold(op Op, w int, x, y uint64) (uint64, bool) {
	m := mask(w)
	switch op {
	case OBvAdd:
		return (x + y) & m, true
	case OBvSub:
		return (x - y) & m, true
	case OBvMul:
		return (x * y) & m, true
	case OBvUDiv:
		if y == 0 {
			return m, true
		}
		return x / y, true
	case OBvURem:
		if y == 0 {
			return x, true
		}
		return x % y, true
	case OBvSDiv:
		if y == 0 {
			return 0, false
		}
		sx, sy := sext(x, w), sext(y, w)
		if sy == -1 {
			return uint64(-sx) & m, true
		}
		return uint64(sx/sy) & m, true
	case OBvSRem:
		if y == 0 {
			return 0, false
		}
		sx, sy := sext(x, w), sext(y, w)
		if sy == -1 {
			return 0, true
		}
		return uint64(sx%sy) & m, true
	case OBvAnd:
		return x & y, true
	case OBvOr:
		return x | y, true
	case OBvXor:
		return x ^ y, true
	case OBvShl:
		if y >= uint64(w) {
			return 0, true
		}
		return (x << y) & m, true
	case OBvLshr:
		if y >= uint64(w) {
			return 0, true
		}
		return x >> y, true
	case OBvAshr:
		sx := sext(x, w)
		if y >= uint64(w) {
			y = 63
		}
		return uint64(sx>>y) & m, true
	}
	return 0, false
}

func (b *Builder) BvBin(op Op, x, y *Term) *Term {
	if x.Sort != y.Sort || x.Sort.K != SBV {
		panic(fmt.Sprintf("bvbin sort mismatch op=%d %v %v", op, x.Sort, y.Sort))
	}
	w := x.Sort.W
	if x.IsConst() && y.IsConst() {
		if v, ok := b.bvFold(op, w, x.C, y.C); ok {
			return b.BVConst(v, w)
		}
	}
	// identities
	switch op {
	case OBvAdd, OBvOr, OBvXor:
		if x.IsConst() && x.C == 0 {
			return y
		}
		if y.IsConst() && y.C == 0 {
			return x
		}
		if op == OBvOr && ((x.IsConst() && x.C == mask(w)) || (y.IsConst() && y.C == mask(w))) {
			return b.BVConst(mask(w), w)
		}
	case OBvSub, OBvShl, OBvLshr, OBvAshr:
		if y.IsConst() && y.C == 0 {
			return x
		}
		if op != OBvSub && op != OBvAshr && y.IsConst() && y.C >= uint64(w) {
			return b.BVConst(0, w)
		}
		if op != OBvSub && x.IsConst() && x.C == 0 {
			return x
		}
		if op == OBvSub && x == y {
			return b.BVConst(0, w)
		}
	case OBvAnd:
		if x.IsConst() {
			if x.C == 0 {
				return x
			}
			if x.C == mask(w) {
				return y
			}
		}
		if y.IsConst() {
			if y.C == 0 {
				return y
			}
			if y.C == mask(w) {
				return x
			}
		}
		if x == y {
			return x
		}
	case OBvMul:
		if x.IsConst() {
			if x.C == 0 {
				return x
			}
			if x.C == 1 {
				return y
			}
		}
		if y.IsConst() {
			if y.C == 0 {
				return y
			}
			if y.C == 1 {
				return x
			}
		}
	}
	// (z * c) / c == z when the product cannot wrap (syntactic unsigned upper bound of z):
	// the alpha un-premultiplication of image/color for opaque pixels, (v*257*255)/255
	if op == OBvUDiv && y.IsConst() && y.C != 0 && x.Op == OBvMul {
		for i := 0; i < 2; i++ {
			c, z := x.Args[i], x.Args[1-i]
			if c.IsConst() && c.C == y.C {
				if ub := ubound(z, 12); ub <= mask(w)/c.C {
					return z
				}
			}
		}
	}
	// commutative normalisation
	switch op {
	case OBvAdd, OBvMul, OBvAnd, OBvOr, OBvXor:
		if x.ID > y.ID {
			x, y = y, x
		}
	}
	// (zero_ext x) << k | ... are left to the solver
	return b.mk(op, x.Sort, 0, 0, "", x, y)
}

// ubound is a syntactic unsigned upper bound of a bit-vector term (depth-limited).
func ubound(t *Term, depth int) uint64 {
	w := t.Sort.W
	full := mask(w)
	if t.IsConst() {
		return t.C
	}
	if depth == 0 {
		return full
	}
	bitsOf := func(v uint64) uint64 {
		n := uint64(0)
		for v != 0 {
			n++
			v >>= 1
		}
		return n
	}
	min := func(a, b uint64) uint64 {
		if a < b {
			return a
		}
		return b
	}
	switch t.Op {
	case OZeroExt:
		return ubound(t.Args[0], depth-1)
	case OBvAnd:
		return min(ubound(t.Args[0], depth-1), ubound(t.Args[1], depth-1))
	case OBvOr, OBvXor:
		a, c := ubound(t.Args[0], depth-1), ubound(t.Args[1], depth-1)
		if c > a {
			a = c
		}
		return min(full, mask(int(bitsOf(a))))
	case OBvAdd:
		a, c := ubound(t.Args[0], depth-1), ubound(t.Args[1], depth-1)
		if a <= full-c && a+c >= a {
			return a + c
		}
	case OBvMul:
		a, c := ubound(t.Args[0], depth-1), ubound(t.Args[1], depth-1)
		if a == 0 || c == 0 {
			return 0
		}
		if a <= full/c {
			return a * c
		}
	case OBvShl:
		if t.Args[1].IsConst() && t.Args[1].C < 64 {
			a := ubound(t.Args[0], depth-1)
			if a <= full>>t.Args[1].C {
				return a << t.Args[1].C
			}
		}
	case OBvLshr:
		if t.Args[1].IsConst() && t.Args[1].C < 64 {
			return ubound(t.Args[0], depth-1) >> t.Args[1].C
		}
	case OBvUDiv:
		if t.Args[1].IsConst() && t.Args[1].C != 0 {
			return ubound(t.Args[0], depth-1) / t.Args[1].C
		}
	case OIte:
		a, c := ubound(t.Args[1], depth-1), ubound(t.Args[2], depth-1)
		if c > a {
			a = c
		}
		return a
	}
	return full
}

func (b *Builder) BvNot(x *Term) *Term {
	if x.IsConst() {
		return b.BVConst(^x.C, x.Sort.W)
	}
	return b.mk(OBvNot, x.Sort, 0, 0, "", x)
}

func (b *Builder) BvNeg(x *Term) *Term {
	if x.IsConst() {
		return b.BVConst(-x.C, x.Sort.W)
	}
	return b.mk(OBvNeg, x.Sort, 0, 0, "", x)
}

func (b *Builder) BvCmp(op Op, x, y *Term) *Term {
	if x.Sort != y.Sort || x.Sort.K != SBV {
		panic(fmt.Sprintf("bvcmp sort mismatch %v %v", x.Sort, y.Sort))
	}
	w := x.Sort.W
	if x.IsConst() && y.IsConst() {
		switch op {
		case OBvUlt:
			return b.Bool(x.C < y.C)
		case OBvUle:
			return b.Bool(x.C <= y.C)
		case OBvSlt:
			return b.Bool(sext(x.C, w) < sext(y.C, w))
		case OBvSle:
			return b.Bool(sext(x.C, w) <= sext(y.C, w))
		}
	}
	if x == y {
		return b.Bool(op == OBvUle || op == OBvSle)
	}
	if op == OBvUlt && y.IsConst() && y.C == 0 {
		return b.Bool(false)
	}
	if op == OBvUle && x.IsConst() && x.C == 0 {
		return b.Bool(true)
	}
	// zero-extended value compared with a constant beyond its range
	if x.Op == OZeroExt && y.IsConst() {
		iw := x.Args[0].Sort.W
		if op == OBvUlt && y.C > mask(iw) {
			return b.Bool(true)
		}
		if op == OBvUle && y.C >= mask(iw) {
			return b.Bool(true)
		}
		if (op == OBvSlt || op == OBvSle) && sext(y.C, w) > int64(mask(iw)) {
			return b.Bool(true)
		}
		if (op == OBvSlt || op == OBvSle) && sext(y.C, w) < 0 {
			return b.Bool(false)
		}
	}
	if y.Op == OZeroExt && x.IsConst() {
		iw := y.Args[0].Sort.W
		if (op == OBvUlt || op == OBvUle) && x.C > mask(iw) {
			return b.Bool(false)
		}
		if (op == OBvSlt || op == OBvSle) && sext(x.C, w) > int64(mask(iw)) {
			return b.Bool(false)
		}
		if (op == OBvSlt || op == OBvSle) && sext(x.C, w) < 0 {
			return b.Bool(true)
		}
	}
	return b.mk(op, BoolSort, 0, 0, "", x, y)
}

func (b *Builder) Extract(hi, lo int, x *Term) *Term {
	w := x.Sort.W
	if hi >= w || lo < 0 || hi < lo {
		panic(fmt.Sprintf("bad extract %d %d of width %d", hi, lo, w))
	}
	if lo == 0 && hi == w-1 {
		return x
	}
	nw := hi - lo + 1
	if x.IsConst() {
		return b.BVConst((x.C>>uint(lo))&mask(nw), nw)
	}
	switch x.Op {
	case OZeroExt:
		iw := x.Args[0].Sort.W
		if hi < iw {
			return b.Extract(hi, lo, x.Args[0])
		}
		if lo >= iw {
			return b.BVConst(0, nw)
		}
		if lo == 0 {
			return b.ZeroExt(nw-iw, x.Args[0])
		}
	case OSignExt:
		iw := x.Args[0].Sort.W
		if hi < iw {
			return b.Extract(hi, lo, x.Args[0])
		}
	case OExtract:
		return b.Extract(hi+x.P2, lo+x.P2, x.Args[0])
	case OConcat:
		lw := x.Args[1].Sort.W
		if hi < lw {
			return b.Extract(hi, lo, x.Args[1])
		}
		if lo >= lw {
			return b.Extract(hi-lw, lo-lw, x.Args[0])
		}
	case OBvAnd, OBvOr, OBvXor:
		if lo == 0 || true {
			// bitwise ops distribute over extract
			return b.BvBin(x.Op, b.Extract(hi, lo, x.Args[0]), b.Extract(hi, lo, x.Args[1]))
		}
	case OBvAdd, OBvSub, OBvMul:
		if lo == 0 {
			return b.BvBin(x.Op, b.Extract(hi, 0, x.Args[0]), b.Extract(hi, 0, x.Args[1]))
		}
	case OBvShl:
		// (x << k)[hi:lo] with constant k
		if k := x.Args[1]; k.IsConst() && k.C < uint64(w) {
			kk := int(k.C)
			if lo >= kk {
				return b.Extract(hi-kk, lo-kk, x.Args[0])
			}
			if hi < kk {
				return b.BVConst(0, nw)
			}
		}
	case OBvLshr:
		if k := x.Args[1]; k.IsConst() && k.C < uint64(w) {
			kk := int(k.C)
			if hi+kk < w {
				return b.Extract(hi+kk, lo+kk, x.Args[0])
			}
			if lo+kk >= w {
				return b.BVConst(0, nw)
			}
		}
	case OIte:
		if x.Args[1].IsConst() || x.Args[2].IsConst() {
			return b.Ite(x.Args[0], b.Extract(hi, lo, x.Args[1]), b.Extract(hi, lo, x.Args[2]))
		}
	}
	return b.mk(OExtract, BV(nw), hi, lo, "", x)
}

func (b *Builder) Concat(hiT, loT *Term) *Term {
	w := hiT.Sort.W + loT.Sort.W
	if hiT.IsConst() && loT.IsConst() && w <= 64 {
		return b.BVConst(hiT.C<<uint(loT.Sort.W)|loT.C, w)
	}
	if hiT.IsConst() && hiT.C == 0 {
		return b.ZeroExt(hiT.Sort.W, loT)
	}
	return b.mk(OConcat, BV(w), 0, 0, "", hiT, loT)
}

func (b *Builder) ZeroExt(n int, x *Term) *Term {
	if n == 0 {
		return x
	}
	if x.IsConst() {
		return b.BVConst(x.C, x.Sort.W+n)
	}
	if x.Op == OZeroExt {
		return b.ZeroExt(n+x.P1, x.Args[0])
	}
	return b.mk(OZeroExt, BV(x.Sort.W+n), n, 0, "", x)
}

func (b *Builder) SignExt(n int, x *Term) *Term {
	if n == 0 {
		return x
	}
	if x.IsConst() {
		return b.BVConst(uint64(sext(x.C, x.Sort.W)), x.Sort.W+n)
	}
	if x.Op == OZeroExt {
		return b.ZeroExt(n+x.P1, x.Args[0])
	}
	return b.mk(OSignExt, BV(x.Sort.W+n), n, 0, "", x)
}

// Resize converts a bit-vector to width w, sign- or zero-extending.
func (b *Builder) Resize(x *Term, w int, signed bool) *Term {
	xw := x.Sort.W
	switch {
	case w == xw:
		return x
	case w < xw:
		return b.Extract(w-1, 0, x)
	case signed:
		return b.SignExt(w-xw, x)
	default:
		return b.ZeroExt(w-xw, x)
	}
}

// ---------- floating point (bit precise) ----------

func fpRound(f float64, w int) float64 {
	if w == 32 {
		return float64(float32(f))
	}
	return f
}

func (b *Builder) FpBin(op Op, x, y *Term) *Term {
	if x.Sort != y.Sort || x.Sort.K != SFP {
		panic(fmt.Sprintf("fpbin sort mismatch %v %v", x.Sort, y.Sort))
	}
	w := x.Sort.W
	if x.IsConst() && y.IsConst() {
		var r float64
		if w == 32 {
			a, c := float32(x.F), float32(y.F)
			switch op {
			case OFpAdd:
				r = float64(a + c)
			case OFpSub:
				r = float64(a - c)
			case OFpMul:
				r = float64(a * c)
			case OFpDiv:
				r = float64(a / c)
			}
		} else {
			switch op {
			case OFpAdd:
				r = x.F + y.F
			case OFpSub:
				r = x.F - y.F
			case OFpMul:
				r = x.F * y.F
			case OFpDiv:
				r = x.F / y.F
			}
		}
		return b.FPConst(r, w)
	}
	// x*1, 1*x and x/1 are exact in IEEE 754 for every x (zeros, infinities and NaN
	// included; SMT-LIB has a single NaN): no rounding happens
	if op == OFpMul && y.IsConst() && y.F == 1 {
		return x
	}
	if op == OFpMul && x.IsConst() && x.F == 1 {
		return y
	}
	if op == OFpDiv && y.IsConst() && y.F == 1 {
		return x
	}
	return b.mk(op, x.Sort, 0, 0, "", x, y)
}

func (b *Builder) FpNeg(x *Term) *Term {
	if x.IsConst() {
		return b.FPConst(-x.F, x.Sort.W)
	}
	return b.mk(OFpNeg, x.Sort, 0, 0, "", x)
}

func (b *Builder) FpCmp(op Op, x, y *Term) *Term {
	if x.Sort != y.Sort || x.Sort.K != SFP {
		panic(fmt.Sprintf("fpcmp sort mismatch %v %v", x.Sort, y.Sort))
	}
	if x.IsConst() && y.IsConst() {
		switch op {
		case OFpLt:
			return b.Bool(x.F < y.F)
		case OFpLe:
			return b.Bool(x.F <= y.F)
		case OFpEq:
			return b.Bool(x.F == y.F)
		}
	}
	return b.mk(op, BoolSort, 0, 0, "", x, y)
}

func (b *Builder) FpIsNaN(x *Term) *Term {
	if x.IsConst() {
		return b.Bool(x.F != x.F)
	}
	return b.mk(OFpIsNaN, BoolSort, 0, 0, "", x)
}

func (b *Builder) FpIsInf(x *Term) *Term {
	if x.IsConst() {
		return b.Bool(math.IsInf(x.F, 0))
	}
	return b.mk(OFpIsInf, BoolSort, 0, 0, "", x)
}

func (b *Builder) FpToFp(x *Term, w int) *Term {
	if x.Sort.W == w {
		return x
	}
	if x.IsConst() {
		return b.FPConst(x.F, w)
	}
	return b.mk(OFpToFp, FP(w), w, 0, "", x)
}

func (b *Builder) FpFromBV(x *Term, signed bool, w int) *Term {
	if x.IsConst() {
		var f float64
		if signed {
			f = float64(sext(x.C, x.Sort.W))
			if w == 32 {
				f = float64(float32(sext(x.C, x.Sort.W)))
			}
		} else {
			f = float64(x.C)
			if w == 32 {
				f = float64(float32(x.C))
			}
		}
		return b.FPConst(f, w)
	}
	if signed {
		return b.mk(OFpFromS, FP(w), w, 0, "", x)
	}
	return b.mk(OFpFromU, FP(w), w, 0, "", x)
}

// FpToBV is the SMT-LIB conversion (RTZ); unspecified outside the range.
func (b *Builder) FpToBV(x *Term, signed bool, w int) *Term {
	if signed {
		return b.mk(OFpToS, BV(w), w, 0, "", x)
	}
	return b.mk(OFpToU, BV(w), w, 0, "", x)
}

// ---------- reals ----------

func (b *Builder) RBin(op Op, x, y *Term) *Term {
	if x.Sort.K != SReal || y.Sort.K != SReal {
		panic("rbin on non-real")
	}
	if x.IsConst() && y.IsConst() {
		r := new(big.Rat)
		switch op {
		case ORAdd:
			return b.RealConst(r.Add(x.R, y.R))
		case ORSub:
			return b.RealConst(r.Sub(x.R, y.R))
		case ORMul:
			return b.RealConst(r.Mul(x.R, y.R))
		case ORDiv:
			if y.R.Sign() != 0 {
				return b.RealConst(r.Quo(x.R, y.R))
			}
		}
	}
	switch op {
	case ORAdd:
		if x.IsConst() && x.R.Sign() == 0 {
			return y
		}
		if y.IsConst() && y.R.Sign() == 0 {
			return x
		}
	case ORSub:
		if y.IsConst() && y.R.Sign() == 0 {
			return x
		}
	case ORMul:
		one := big.NewRat(1, 1)
		if x.IsConst() {
			if x.R.Sign() == 0 {
				return x
			}
			if x.R.Cmp(one) == 0 {
				return y
			}
		}
		if y.IsConst() {
			if y.R.Sign() == 0 {
				return y
			}
			if y.R.Cmp(one) == 0 {
				return x
			}
		}
	case ORDiv:
		if y.IsConst() && y.R.Cmp(big.NewRat(1, 1)) == 0 {
			return x
		}
		if y.IsConst() && y.R.Sign() != 0 {
			return b.RBin(ORMul, x, b.RealConst(new(big.Rat).Inv(y.R)))
		}
	}
	return b.mk(op, RealSort, 0, 0, "", x, y)
}

func (b *Builder) RNeg(x *Term) *Term {
	if x.IsConst() {
		return b.RealConst(new(big.Rat).Neg(x.R))
	}
	return b.mk(ORNeg, RealSort, 0, 0, "", x)
}

func (b *Builder) RCmp(op Op, x, y *Term) *Term {
	if x.IsConst() && y.IsConst() {
		c := x.R.Cmp(y.R)
		if op == ORLt {
			return b.Bool(c < 0)
		}
		return b.Bool(c <= 0)
	}
	return b.mk(op, BoolSort, 0, 0, "", x, y)
}

func (b *Builder) BvToReal(x *Term, signed bool) *Term {
	if x.IsConst() {
		if signed {
			return b.RealConst(new(big.Rat).SetInt64(sext(x.C, x.Sort.W)))
		}
		return b.RealConst(new(big.Rat).SetInt(new(big.Int).SetUint64(x.C)))
	}
	if signed {
		return b.mk(OBvSToReal, RealSort, 0, 0, "", x)
	}
	return b.mk(OBvToReal, RealSort, 0, 0, "", x)
}

func (b *Builder) App(name string, s Sort, args ...*Term) *Term {
	return b.mk(OApp, s, 0, 0, name, args...)
}

// ---------- printing ----------

func bvLit(v uint64, w int) string {
	if w%4 == 0 {
		return fmt.Sprintf("#x%0*x", w/4, v)
	}
	return fmt.Sprintf("#b%0*b", w, v)
}

func fpLit(f float64, w int) string {
	if w == 32 {
		if f != f {
			return "(_ NaN 8 24)"
		}
		bits := math.Float32bits(float32(f))
		return fmt.Sprintf("(fp #b%b #b%08b #b%023b)", bits>>31, (bits>>23)&0xff, bits&0x7fffff)
	}
	if f != f {
		return "(_ NaN 11 53)"
	}
	bits := math.Float64bits(f)
	return fmt.Sprintf("(fp #b%b #b%011b #b%052b)", bits>>63, (bits>>52)&0x7ff, bits&((1<<52)-1))
}

func ratLit(r *big.Rat) string {
	neg := r.Sign() < 0
	a := new(big.Rat).Abs(r)
	var s string
	if a.IsInt() {
		s = a.Num().String() + ".0"
	} else {
		s = "(/ " + a.Num().String() + ".0 " + a.Denom().String() + ".0)"
	}
	if neg {
		return "(- " + s + ")"
	}
	return s
}

func quoteName(n string) string {
	for _, c := range n {
		if !(c >= 'a' && c <= 'z' || c >= 'A' && c <= 'Z' || c >= '0' && c <= '9' || c == '_' || c == '!' || c == '.' || c == '$') {
			return "|" + n + "|"
		}
	}
	return n
}

// ref is how a term is referenced from another definition.
func (t *Term) ref() string {
	switch t.Op {
	case OConst:
		switch t.Sort.K {
		case SBool:
			if t.C != 0 {
				return "true"
			}
			return "false"
		case SBV:
			return bvLit(t.C, t.Sort.W)
		case SFP:
			return fpLit(t.F, t.Sort.W)
		case SReal:
			return ratLit(t.R)
		}
	case OVar:
		return quoteName(t.Name)
	}
	return fmt.Sprintf("t%d", t.ID)
}

func (t *Term) body(argRef func(*Term) string) string {
	var sb strings.Builder
	switch t.Op {
	case OConst, OVar:
		return t.ref()
	case OExtract:
		fmt.Fprintf(&sb, "((_ extract %d %d) %s)", t.P1, t.P2, argRef(t.Args[0]))
		return sb.String()
	case OZeroExt:
		fmt.Fprintf(&sb, "((_ zero_extend %d) %s)", t.P1, argRef(t.Args[0]))
		return sb.String()
	case OSignExt:
		fmt.Fprintf(&sb, "((_ sign_extend %d) %s)", t.P1, argRef(t.Args[0]))
		return sb.String()
	case OFpToFp:
		if t.P1 == 32 {
			fmt.Fprintf(&sb, "((_ to_fp 8 24) RNE %s)", argRef(t.Args[0]))
		} else {
			fmt.Fprintf(&sb, "((_ to_fp 11 53) RNE %s)", argRef(t.Args[0]))
		}
		return sb.String()
	case OFpFromS, OFpFromU:
		fn := "to_fp"
		if t.Op == OFpFromU {
			fn = "to_fp_unsigned"
		}
		if t.P1 == 32 {
			fmt.Fprintf(&sb, "((_ %s 8 24) RNE %s)", fn, argRef(t.Args[0]))
		} else {
			fmt.Fprintf(&sb, "((_ %s 11 53) RNE %s)", fn, argRef(t.Args[0]))
		}
		return sb.String()
	case OFpToS:
		fmt.Fprintf(&sb, "((_ fp.to_sbv %d) RTZ %s)", t.P1, argRef(t.Args[0]))
		return sb.String()
	case OFpToU:
		fmt.Fprintf(&sb, "((_ fp.to_ubv %d) RTZ %s)", t.P1, argRef(t.Args[0]))
		return sb.String()
	case OBvToReal:
		fmt.Fprintf(&sb, "(to_real (bv2nat %s))", argRef(t.Args[0]))
		return sb.String()
	case OBvSToReal:
		a := argRef(t.Args[0])
		w := t.Args[0].Sort.W
		fmt.Fprintf(&sb, "(to_real (ite (bvslt %s %s) (- (bv2nat %s) %s) (bv2nat %s)))", a, bvLit(0, w), a, new(big.Int).Lsh(big.NewInt(1), uint(w)).String(), a)
		return sb.String()
	case OApp:
		if len(t.Args) == 0 {
			return quoteName(t.Name)
		}
		sb.WriteString("(" + quoteName(t.Name))
	default:
		n, ok := opNames[t.Op]
		if !ok {
			panic(fmt.Sprintf("no smt name for op %d", t.Op))
		}
		sb.WriteString("(" + n)
	}
	for _, a := range t.Args {
		sb.WriteString(" ")
		sb.WriteString(argRef(a))
	}
	sb.WriteString(")")
	return sb.String()
}

func (t *Term) smtInline(depth int) string {
	if depth == 0 && t.Op != OConst && t.Op != OVar {
		return fmt.Sprintf("t%d", t.ID)
	}
	return t.body(func(a *Term) string { return a.smtInline(depth - 1) })
}

// Vars returns the free variables of t.
func Vars(ts ...*Term) []*Term {
	seen := map[int]bool{}
	var out []*Term
	var walk func(t *Term)
	walk = func(t *Term) {
		if seen[t.ID] {
			return
		}
		seen[t.ID] = true
		if t.Op == OVar {
			out = append(out, t)
		}
		for _, a := range t.Args {
			walk(a)
		}
	}
	for _, t := range ts {
		walk(t)
	}
	return out
}

// eqSelf returns a trivially true constraint mentioning t (so that the
// solver's model assigns t's variables).
func (t *Term) eqSelf(b *Builder) *Term { return b.Bool(true) }

func (b *Builder) IntToReal(x *Term) *Term { return b.mk(OIntToReal, RealSort, 0, 0, "", x) }

// Ratio builds num/den as a rational-function node.
func (b *Builder) Ratio(n, d *Term) *Term {
	if d.IsConst() {
		if d.R.Sign() == 0 {
			panic(engineError{"ratio with zero denominator"})
		}
		return b.RBin(ORMul, n, b.RealConst(new(big.Rat).Inv(d.R)))
	}
	return b.mk(ORatio, RealSort, 0, 0, "", n, d)
}

// NumDen splits a real term into numerator and denominator polynomials.
func (b *Builder) NumDen(t *Term) (*Term, *Term) {
	if t.Op == ORatio {
		return t.Args[0], t.Args[1]
	}
	return t, b.RealConst(big.NewRat(1, 1))
}
