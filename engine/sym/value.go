package sym

import (
	"fmt"
	"go/types"
	"strings"

	"golang.org/x/tools/go/ssa"
)

// Value is a boxed interpreter value. Dynamic types:
//
//	*Term      bool, integers, floats (scalar leaves, possibly symbolic)
//	StructV    struct, by value
//	ArrayV     array, by value
//	TupleV     multi-value results
//	*Value     pointer to a cell (nil pointer: (*Value)(nil))
//	*SymPtr    pointer to an array element with symbolic index
//	*SliceV    slice
//	StringV    string (bytes as terms)
//	*MapV      map (reference; nil map: (*MapV)(nil))
//	IfaceV     interface value
//	*FuncV     function/closure (nil func: (*FuncV)(nil))
//	*ssa.Builtin
//	*MapIter / *StrIter  range iterators
//	Poison     uninitialised global of a package whose init is not run
type Value interface{}

type StructV []Value
type ArrayV []Value
type TupleV []Value

type IfaceV struct {
	T types.Type // nil for nil interface
	V Value
}

type FuncV struct {
	Fn  *ssa.Function
	Env []Value
}

type SliceV struct {
	A   []Value // materialised cells, starting at the slice's first element
	Len *Term   // BV64
	Cap *Term   // BV64
	Nil bool
}

type StringV struct {
	B []*Term // BV8 each
}

type SymPtr struct {
	A   []Value
	Idx *Term // BV64, proven in range
}

type MapV struct {
	KeyT  types.Type
	Keys  []Value
	Vals  []Value
	Alive []bool
}

type MapIter struct {
	M    *MapV
	Keys []Value
	Vals []Value
	I    int
}

type StrIter struct {
	S StringV
	I int
}

type Poison struct{ What string }

// ---- engine control-flow panics ----

type targetPanic struct{ v Value }          // a Go-level panic in the program under test
type pathAbort struct{ reason string }      // infeasible path / assume(false)
type engineError struct{ msg string }       // unsupported feature: makes the check inconclusive
type boundExhausted struct{ what string }   // a stated bound was hit
type pathStop struct{}                      // harness asked to stop this path (e.g. after violation)

func (e engineError) Error() string { return "engine: " + e.msg }

func errorf(format string, args ...interface{}) engineError {
	return engineError{fmt.Sprintf(format, args...)}
}

func deref(t types.Type) types.Type {
	if p, ok := t.Underlying().(*types.Pointer); ok {
		return p.Elem()
	}
	panic(errorf("deref of non-pointer %v", t))
}

func (e *Exec) intWidth(t types.Type) (int, bool) {
	b, ok := t.Underlying().(*types.Basic)
	if !ok {
		panic(errorf("intWidth of %v", t))
	}
	switch b.Kind() {
	case types.Int8:
		return 8, true
	case types.Int16:
		return 16, true
	case types.Int32, types.UntypedRune:
		return 32, true
	case types.Int64, types.Int, types.UntypedInt:
		return 64, true
	case types.Uint8:
		return 8, false
	case types.Uint16:
		return 16, false
	case types.Uint32:
		return 32, false
	case types.Uint64, types.Uint, types.Uintptr:
		return 64, false
	}
	panic(errorf("intWidth of %v", t))
}

func isInteger(t types.Type) bool {
	b, ok := t.Underlying().(*types.Basic)
	return ok && b.Info()&types.IsInteger != 0
}
func isFloat(t types.Type) bool {
	b, ok := t.Underlying().(*types.Basic)
	return ok && b.Info()&types.IsFloat != 0
}
func isBool(t types.Type) bool {
	b, ok := t.Underlying().(*types.Basic)
	return ok && b.Info()&types.IsBoolean != 0
}
func isString(t types.Type) bool {
	b, ok := t.Underlying().(*types.Basic)
	return ok && b.Info()&types.IsString != 0
}
func floatWidth(t types.Type) int {
	b := t.Underlying().(*types.Basic)
	if b.Kind() == types.Float32 {
		return 32
	}
	return 64
}

// zero returns the zero value of type t.
func (e *Exec) zero(t types.Type) Value {
	switch t := t.(type) {
	case *types.Basic:
		switch {
		case t.Kind() == types.UntypedNil:
			panic(errorf("zero of untyped nil"))
		case t.Info()&types.IsBoolean != 0:
			return e.B.Bool(false)
		case t.Info()&types.IsInteger != 0:
			w, _ := e.intWidth(t)
			return e.B.BVConst(0, w)
		case t.Info()&types.IsFloat != 0:
			return e.floatConst(0, floatWidth(t))
		case t.Info()&types.IsString != 0:
			return StringV{}
		case t.Kind() == types.UnsafePointer:
			return (*Value)(nil)
		}
		panic(errorf("zero of basic %v", t))
	case *types.Pointer:
		return (*Value)(nil)
	case *types.Array:
		a := make(ArrayV, t.Len())
		if t.Len() > 0 {
			z := e.zero(t.Elem())
			if _, scalar := z.(*Term); scalar {
				for i := range a {
					a[i] = z
				}
			} else {
				a[0] = z
				for i := 1; i < len(a); i++ {
					a[i] = e.zero(t.Elem())
				}
			}
		}
		return a
	case *types.Named:
		return e.zero(t.Underlying())
	case *types.Alias:
		return e.zero(types.Unalias(t))
	case *types.Interface:
		return IfaceV{}
	case *types.Slice:
		return &SliceV{Len: e.B.BVConst(0, 64), Cap: e.B.BVConst(0, 64), Nil: true}
	case *types.Struct:
		s := make(StructV, t.NumFields())
		for i := range s {
			s[i] = e.zero(t.Field(i).Type())
		}
		return s
	case *types.Tuple:
		if t.Len() == 1 {
			return e.zero(t.At(0).Type())
		}
		s := make(TupleV, t.Len())
		for i := range s {
			s[i] = e.zero(t.At(i).Type())
		}
		return s
	case *types.Chan:
		return (*Value)(nil)
	case *types.Map:
		return (*MapV)(nil)
	case *types.Signature:
		return (*FuncV)(nil)
	}
	panic(errorf("zero: unexpected type %T %v", t, t))
}

// copyVal copies aggregates (structs, arrays); references are shared.
func copyVal(v Value) Value {
	switch v := v.(type) {
	case StructV:
		c := make(StructV, len(v))
		for i, f := range v {
			c[i] = copyVal(f)
		}
		return c
	case ArrayV:
		c := make(ArrayV, len(v))
		if len(v) > 0 {
			if _, scalar := v[0].(*Term); scalar {
				copy(c, v)
				return c
			}
		}
		for i, f := range v {
			c[i] = copyVal(f)
		}
		return c
	case TupleV:
		c := make(TupleV, len(v))
		for i, f := range v {
			c[i] = copyVal(f)
		}
		return c
	}
	return v
}

// ---- loads and stores ----

func (e *Exec) load(t types.Type, p Value, instr ssa.Instruction) Value {
	switch p := p.(type) {
	case *Value:
		if p == nil {
			panic(e.runtimePanic("invalid memory address or nil pointer dereference"))
		}
		e.logAccess(p, false, instr)
		v := *p
		if po, ok := v.(Poison); ok {
			panic(errorf("read of uninitialised global %s (package init not modelled)", po.What))
		}
		return copyVal(v)
	case *UFPtr:
		return e.ufLoad(p)
	case *SymPtr:
		// ite-chain over all candidate cells
		var res *Term
		for i := len(p.A) - 1; i >= 0; i-- {
			c, ok := p.A[i].(*Term)
			if !ok {
				panic(errorf("symbolic-index load of non-scalar element"))
			}
			if res == nil {
				res = c
			} else {
				res = e.B.Ite(e.B.Eq(p.Idx, e.B.BVConst(uint64(i), 64)), c, res)
			}
		}
		if res == nil {
			panic(errorf("symbolic-index load from empty array"))
		}
		return res
	}
	panic(errorf("load through %T", p))
}

func (e *Exec) store(t types.Type, p Value, v Value, instr ssa.Instruction) {
	switch p := p.(type) {
	case *Value:
		if p == nil {
			panic(e.runtimePanic("invalid memory address or nil pointer dereference"))
		}
		e.logAccess(p, true, instr)
		storeInPlace(p, v)
		return
	case *SymPtr:
		nv, ok := v.(*Term)
		if !ok {
			panic(errorf("symbolic-index store of non-scalar"))
		}
		for i := range p.A {
			old := p.A[i].(*Term)
			p.A[i] = e.B.Ite(e.B.Eq(p.Idx, e.B.BVConst(uint64(i), 64)), nv, old)
		}
		return
	}
	panic(errorf("store through %T", p))
}

// storeInPlace keeps the identity of struct fields and array elements (there
// may be pointers to them), as a real store does.
func storeInPlace(p *Value, v Value) {
	switch nv := v.(type) {
	case StructV:
		if old, ok := (*p).(StructV); ok && len(old) == len(nv) {
			for i := range nv {
				storeInPlace(&old[i], nv[i])
			}
			return
		}
	case ArrayV:
		if old, ok := (*p).(ArrayV); ok && len(old) == len(nv) {
			if len(nv) > 0 {
				if _, scalar := nv[0].(*Term); scalar {
					copy(old, nv)
					return
				}
			}
			for i := range nv {
				storeInPlace(&old[i], nv[i])
			}
			return
		}
	}
	*p = copyVal(v)
}

// ---- equality ----

// equals returns a Bool term for Go's == on type t.
func (e *Exec) equals(t types.Type, x, y Value) *Term {
	switch x := x.(type) {
	case *Term:
		yt := y.(*Term)
		if x.Sort.K == SFP {
			return e.B.FpCmp(OFpEq, x, yt)
		}
		if x.Op == ORatio || yt.Op == ORatio {
			xn, xd := e.B.NumDen(x)
			yn, yd := e.B.NumDen(yt)
			return e.B.Eq(e.B.RBin(ORMul, xn, yd), e.B.RBin(ORMul, yn, xd))
		}
		return e.B.Eq(x, yt)
	case StringV:
		ys := y.(StringV)
		if len(x.B) != len(ys.B) {
			return e.B.Bool(false)
		}
		r := e.B.Bool(true)
		for i := range x.B {
			r = e.B.And(r, e.B.Eq(x.B[i], ys.B[i]))
		}
		return r
	case *Value:
		return e.B.Bool(x == y.(*Value))
	case *SymPtr:
		panic(errorf("comparison of symbolic pointers"))
	case StructV:
		ys := y.(StructV)
		st := t.Underlying().(*types.Struct)
		r := e.B.Bool(true)
		for i := range x {
			if st.Field(i).Name() == "_" {
				continue
			}
			r = e.B.And(r, e.equals(st.Field(i).Type(), x[i], ys[i]))
		}
		return r
	case ArrayV:
		ys := y.(ArrayV)
		et := t.Underlying().(*types.Array).Elem()
		r := e.B.Bool(true)
		for i := range x {
			r = e.B.And(r, e.equals(et, x[i], ys[i]))
		}
		return r
	case IfaceV:
		yi := y.(IfaceV)
		if x.T == nil || yi.T == nil {
			return e.B.Bool(x.T == nil && yi.T == nil)
		}
		if !types.Identical(x.T, yi.T) {
			return e.B.Bool(false)
		}
		if !types.Comparable(x.T) {
			panic(e.runtimePanic("comparing uncomparable type " + x.T.String()))
		}
		return e.equals(x.T, x.V, yi.V)
	case *MapV:
		ym, _ := y.(*MapV)
		return e.B.Bool(x == ym)
	case *FuncV:
		yf, _ := y.(*FuncV)
		if x == nil || yf == nil {
			return e.B.Bool(x == nil && yf == nil)
		}
		panic(errorf("comparison of non-nil funcs"))
	case *SliceV:
		// only slice == nil is legal
		ysl := y.(*SliceV)
		if ysl.Nil && ysl.A == nil {
			return e.B.Bool(x.Nil)
		}
		if x.Nil && x.A == nil {
			return e.B.Bool(ysl.Nil)
		}
		panic(errorf("slice comparison"))
	}
	panic(errorf("equals: unexpected %T", x))
}

// ---- helpers for concrete views ----

func (e *Exec) concreteString(s StringV) (string, bool) {
	var sb strings.Builder
	for _, b := range s.B {
		if !b.IsConst() {
			return "", false
		}
		sb.WriteByte(byte(b.C))
	}
	return sb.String(), true
}

func (e *Exec) mkString(s string) StringV {
	bs := make([]*Term, len(s))
	for i := 0; i < len(s); i++ {
		bs[i] = e.B.BVConst(uint64(s[i]), 8)
	}
	return StringV{B: bs}
}

func (e *Exec) mkInt(v int64) *Term { return e.B.BVConst(uint64(v), 64) }

func (e *Exec) mkSlice(cells []Value) *SliceV {
	n := e.mkInt(int64(len(cells)))
	return &SliceV{A: cells, Len: n, Cap: n}
}

func (e *Exec) mkByteSlice(bs []*Term) *SliceV {
	cells := make([]Value, len(bs))
	for i, b := range bs {
		cells[i] = b
	}
	return e.mkSlice(cells)
}

// describe renders a value for diagnostics.
func describe(v Value) string {
	switch v := v.(type) {
	case *Term:
		return v.String()
	case StringV:
		var sb strings.Builder
		sb.WriteByte('"')
		for _, b := range v.B {
			if b.IsConst() {
				if b.C >= 32 && b.C < 127 {
					sb.WriteByte(byte(b.C))
				} else {
					fmt.Fprintf(&sb, "\\x%02x", b.C)
				}
			} else {
				sb.WriteString("?")
			}
		}
		sb.WriteByte('"')
		return sb.String()
	case IfaceV:
		if v.T == nil {
			return "nil"
		}
		return fmt.Sprintf("%v(%s)", v.T, describe(v.V))
	case *Value:
		if v == nil {
			return "nil"
		}
		return "&" + describe(*v)
	case StructV:
		var parts []string
		for _, f := range v {
			parts = append(parts, describe(f))
		}
		return "{" + strings.Join(parts, ", ") + "}"
	case ArrayV:
		if len(v) > 8 {
			return fmt.Sprintf("[%d]...", len(v))
		}
		var parts []string
		for _, f := range v {
			parts = append(parts, describe(f))
		}
		return "[" + strings.Join(parts, ", ") + "]"
	case *SliceV:
		return fmt.Sprintf("slice(len=%s)", v.Len)
	case *FuncV:
		if v == nil {
			return "nil func"
		}
		return v.Fn.String()
	}
	return fmt.Sprintf("%T", v)
}
