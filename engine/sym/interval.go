package sym

import "math"

// Interval bounds of real terms under the variable bounds collected from the
// path condition; used to resolve |x| statically in the rounding-error model
// (sign known: exact relative bound without ite; sign ambiguous: the constant
// bound u*max|x| - a sound over-approximation) so that rerr queries stay in
// linear arithmetic without case splits (DESIGN 2.5a).

type ival struct{ lo, hi float64 }

func widen(v ival) ival {
	return ival{math.Nextafter(v.lo, math.Inf(-1)), math.Nextafter(v.hi, math.Inf(1))}
}

var unbounded = ival{math.Inf(-1), math.Inf(1)}

func (e *Exec) noteBounds(c *Term) {
	switch c.Op {
	case OAnd:
		for _, a := range c.Args {
			e.noteBounds(a)
		}
	case ORLe, ORLt:
		a, b := c.Args[0], c.Args[1]
		if e.varBounds == nil {
			e.varBounds = map[int]ival{}
		}
		if a.IsConst() && b.Op == OVar {
			f, _ := a.R.Float64()
			cur, ok := e.varBounds[b.ID]
			if !ok {
				cur = unbounded
			}
			if f > cur.lo {
				cur.lo = math.Nextafter(f, math.Inf(-1))
			}
			e.varBounds[b.ID] = cur
		}
		if b.IsConst() && a.Op == OVar {
			f, _ := b.R.Float64()
			cur, ok := e.varBounds[a.ID]
			if !ok {
				cur = unbounded
			}
			if f < cur.hi {
				cur.hi = math.Nextafter(f, math.Inf(1))
			}
			e.varBounds[a.ID] = cur
		}
	}
}

func (e *Exec) interval(t *Term, memo map[int]ival) ival {
	if v, ok := memo[t.ID]; ok {
		return v
	}
	var r ival
	switch t.Op {
	case OConst:
		if t.Sort.K != SReal {
			return unbounded
		}
		f, _ := t.R.Float64()
		r = widen(ival{f, f})
	case OVar:
		if b, ok := e.varBounds[t.ID]; ok {
			r = b
		} else {
			r = unbounded
		}
	case ORAdd:
		a, b := e.interval(t.Args[0], memo), e.interval(t.Args[1], memo)
		r = widen(ival{a.lo + b.lo, a.hi + b.hi})
	case ORSub:
		a, b := e.interval(t.Args[0], memo), e.interval(t.Args[1], memo)
		r = widen(ival{a.lo - b.hi, a.hi - b.lo})
	case ORNeg:
		a := e.interval(t.Args[0], memo)
		r = ival{-a.hi, -a.lo}
	case ORMul:
		a, b := e.interval(t.Args[0], memo), e.interval(t.Args[1], memo)
		p := []float64{a.lo * b.lo, a.lo * b.hi, a.hi * b.lo, a.hi * b.hi}
		lo, hi := math.Inf(1), math.Inf(-1)
		for _, v := range p {
			if v != v {
				return unbounded
			}
			lo, hi = math.Min(lo, v), math.Max(hi, v)
		}
		r = widen(ival{lo, hi})
	case OIte:
		a, b := e.interval(t.Args[1], memo), e.interval(t.Args[2], memo)
		r = ival{math.Min(a.lo, b.lo), math.Max(a.hi, b.hi)}
	case OIntToReal:
		if b, ok := e.varBounds[t.ID]; ok {
			r = b
		} else {
			r = unbounded
		}
	default:
		r = unbounded
	}
	if r.lo != r.lo || r.hi != r.hi {
		r = unbounded
	}
	memo[t.ID] = r
	return r
}
