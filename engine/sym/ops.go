package sym

import (
	"fmt"
	"go/token"
	"go/types"
	"math"
	"math/big"
	"unicode/utf8"

	"golang.org/x/tools/go/ssa"
)

func (e *Exec) unop(fr *frame, instr *ssa.UnOp, x Value) Value {
	switch instr.Op {
	case token.MUL: // load
		return e.load(deref(instr.X.Type()), x, instr)
	case token.ARROW:
		panic(errorf("channel receive not supported"))
	case token.NOT:
		return e.B.Not(x.(*Term))
	case token.SUB:
		t := x.(*Term)
		switch t.Sort.K {
		case SBV:
			return e.B.BvNeg(t)
		case SFP:
			return e.B.FpNeg(t)
		case SReal:
			if t.Op == ORatio {
				return e.B.Ratio(e.B.RNeg(t.Args[0]), t.Args[1])
			}
			return e.B.RNeg(t)
		}
	case token.XOR:
		return e.B.BvNot(x.(*Term))
	}
	panic(errorf("unop %v on %T", instr.Op, x))
}

// coerceRealInt: when one operand is an integer carried as a real and the other a
// bit-vector constant, lift the constant.
func (e *Exec) coerceRealInt(t types.Type, x, y Value) (Value, Value) {
	xt, ok1 := x.(*Term)
	yt, ok2 := y.(*Term)
	if !ok1 || !ok2 || xt.Sort.K == yt.Sort.K {
		return x, y
	}
	lift := func(c *Term) *Term {
		_, signed := e.intWidth(t)
		return e.B.BvToReal(c, signed)
	}
	if xt.Sort.K == SReal && yt.Sort.K == SBV && yt.IsConst() {
		return xt, lift(yt)
	}
	if yt.Sort.K == SReal && xt.Sort.K == SBV && xt.IsConst() {
		return lift(xt), yt
	}
	return x, y
}

func (e *Exec) binop(op token.Token, t types.Type, x, y Value, instr ssa.Instruction) Value {
	if isIntegerType(t) {
		x, y = e.coerceRealInt(t, x, y)
	}
	switch op {
	case token.EQL:
		return e.equals(t, x, y)
	case token.NEQ:
		return e.B.Not(e.equals(t, x, y))
	}
	switch xv := x.(type) {
	case *Term:
		yt := y.(*Term)
		switch xv.Sort.K {
		case SBool:
			panic(errorf("binop %v on bool", op))
		case SBV:
			return e.intBinop(op, t, xv, yt, instr)
		case SFP, SReal:
			if isInteger(t) {
				return e.realIntBinop(op, xv, yt)
			}
			return e.floatBinop(op, floatWidth(t), xv, yt, instr)
		}
	case StringV:
		ys := y.(StringV)
		switch op {
		case token.ADD:
			e.countAlloc(int64(len(xv.B)+len(ys.B)), nil, instr)
			bs := make([]*Term, 0, len(xv.B)+len(ys.B))
			bs = append(bs, xv.B...)
			bs = append(bs, ys.B...)
			return StringV{B: bs}
		case token.LSS, token.LEQ, token.GTR, token.GEQ:
			a, ok1 := e.concreteString(xv)
			b, ok2 := e.concreteString(ys)
			if !ok1 || !ok2 {
				panic(errorf("ordered comparison of symbolic strings"))
			}
			var r bool
			switch op {
			case token.LSS:
				r = a < b
			case token.LEQ:
				r = a <= b
			case token.GTR:
				r = a > b
			case token.GEQ:
				r = a >= b
			}
			return e.B.Bool(r)
		}
	}
	panic(errorf("binop %v on %T", op, x))
}

func (e *Exec) intBinop(op token.Token, t types.Type, x, y *Term, instr ssa.Instruction) Value {
	w, signed := e.intWidth(t)
	_ = w
	switch op {
	case token.ADD:
		return e.B.BvBin(OBvAdd, x, y)
	case token.SUB:
		return e.B.BvBin(OBvSub, x, y)
	case token.MUL:
		return e.B.BvBin(OBvMul, x, y)
	case token.QUO, token.REM:
		if e.specCond != nil && !y.IsConst() {
			// speculative arm of an if-conversion: the divisor must be non-zero
			// whenever the arm's condition holds
			if e.check(e.specCond, e.B.Eq(y, e.B.BVConst(0, y.Sort.W))) != Unsat {
				panic(mergeAbort{"division may trap in speculative arm"})
			}
		} else if e.Decide(e.B.Eq(y, e.B.BVConst(0, y.Sort.W))) {
			panic(e.runtimePanic("integer divide by zero"))
		}
		if signed {
			if op == token.QUO {
				return e.B.BvBin(OBvSDiv, x, y)
			}
			return e.B.BvBin(OBvSRem, x, y)
		}
		if op == token.QUO {
			return e.B.BvBin(OBvUDiv, x, y)
		}
		return e.B.BvBin(OBvURem, x, y)
	case token.AND:
		return e.B.BvBin(OBvAnd, x, y)
	case token.OR:
		return e.B.BvBin(OBvOr, x, y)
	case token.XOR:
		return e.B.BvBin(OBvXor, x, y)
	case token.AND_NOT:
		return e.B.BvBin(OBvAnd, x, e.B.BvNot(y))
	case token.SHL, token.SHR:
		// y may have a different width and signedness
		var ySigned bool
		if bi, ok := instr.(*ssa.BinOp); ok {
			_, ySigned = e.intWidth(bi.Y.Type())
		}
		if ySigned && !y.IsConst() {
			if e.Decide(e.B.BvCmp(OBvSlt, y, e.B.BVConst(0, y.Sort.W))) {
				panic(e.runtimePanic("negative shift amount"))
			}
		} else if ySigned && y.IsConst() && sext(y.C, y.Sort.W) < 0 {
			panic(e.runtimePanic("negative shift amount"))
		}
		xw := x.Sort.W
		var yy *Term
		var big *Term // condition: shift count >= width
		if y.Sort.W > xw {
			big = e.B.BvCmp(OBvUle, e.B.BVConst(uint64(xw), y.Sort.W), y)
			yy = e.B.Extract(xw-1, 0, y)
		} else {
			yy = e.B.ZeroExt(xw-y.Sort.W, y)
			big = e.B.Bool(false)
		}
		var sh *Term
		switch {
		case op == token.SHL:
			sh = e.B.BvBin(OBvShl, x, yy)
		case signed:
			sh = e.B.BvBin(OBvAshr, x, yy)
		default:
			sh = e.B.BvBin(OBvLshr, x, yy)
		}
		if big.IsConst() && big.C == 0 {
			return sh
		}
		var over *Term
		if op == token.SHR && signed {
			over = e.B.BvBin(OBvAshr, x, e.B.BVConst(uint64(xw-1), xw))
		} else {
			over = e.B.BVConst(0, xw)
		}
		return e.B.Ite(big, over, sh)
	case token.LSS:
		if signed {
			return e.B.BvCmp(OBvSlt, x, y)
		}
		return e.B.BvCmp(OBvUlt, x, y)
	case token.LEQ:
		if signed {
			return e.B.BvCmp(OBvSle, x, y)
		}
		return e.B.BvCmp(OBvUle, x, y)
	case token.GTR:
		if signed {
			return e.B.BvCmp(OBvSlt, y, x)
		}
		return e.B.BvCmp(OBvUlt, y, x)
	case token.GEQ:
		if signed {
			return e.B.BvCmp(OBvSle, y, x)
		}
		return e.B.BvCmp(OBvUle, y, x)
	}
	panic(errorf("int binop %v", op))
}

// ---------------- floats ----------------

func (e *Exec) floatBinop(op token.Token, w int, x, y *Term, instr ssa.Instruction) Value {
	if e.Cfg.Float == FloatFP {
		switch op {
		case token.ADD:
			return e.B.FpBin(OFpAdd, x, y)
		case token.SUB:
			return e.B.FpBin(OFpSub, x, y)
		case token.MUL:
			return e.B.FpBin(OFpMul, x, y)
		case token.QUO:
			return e.B.FpBin(OFpDiv, x, y)
		case token.LSS:
			return e.B.FpCmp(OFpLt, x, y)
		case token.LEQ:
			return e.B.FpCmp(OFpLe, x, y)
		case token.GTR:
			return e.B.FpCmp(OFpLt, y, x)
		case token.GEQ:
			return e.B.FpCmp(OFpLe, y, x)
		}
		panic(errorf("float binop %v", op))
	}
	if e.Cfg.Float == FloatReal && (x.Op == ORatio || y.Op == ORatio || (op == token.QUO && !y.IsConst())) {
		return e.ratioBinop(op, x, y, instr)
	}
	switch op {
	case token.ADD:
		return e.roundReal(e.B.RBin(ORAdd, x, y), w, x.IsConst() && y.IsConst())
	case token.SUB:
		return e.roundReal(e.B.RBin(ORSub, x, y), w, x.IsConst() && y.IsConst())
	case token.MUL:
		return e.roundReal(e.B.RBin(ORMul, x, y), w, x.IsConst() && y.IsConst())
	case token.QUO:
		return e.roundReal(e.realDiv(x, y, instr), w, x.IsConst() && y.IsConst())
	case token.LSS:
		return e.B.RCmp(ORLt, x, y)
	case token.LEQ:
		return e.B.RCmp(ORLe, x, y)
	case token.GTR:
		return e.B.RCmp(ORLt, y, x)
	case token.GEQ:
		return e.B.RCmp(ORLe, y, x)
	}
	panic(errorf("float binop %v", op))
}

// realDiv builds x/y without a division operator: a fresh q with q*y = x,
// recording y != 0 as a side obligation.
func (e *Exec) realDiv(x, y *Term, instr ssa.Instruction) *Term {
	if y.IsConst() {
		if y.R.Sign() == 0 {
			panic(errorf("real-mode division by constant zero at %s", e.posOf(instr)))
		}
		return e.B.RBin(ORDiv, x, y)
	}
	zero := e.B.RealConst(new(big.Rat))
	// obligation: divisor is non-zero on this path
	r := e.check(e.B.Eq(y, zero))
	if r != Unsat {
		e.recordViolation("divzero", "division", "real-mode divisor may be zero at "+e.posOf(instr), e.B.Eq(y, zero))
		e.assume(e.B.Not(e.B.Eq(y, zero)))
	}
	q := e.B.Fresh("q", RealSort)
	e.assumeDef(e.B.Eq(e.B.RBin(ORMul, q, y), x))
	return q
}

// roundReal models the rounding of a float operation result in real modes.
func (e *Exec) roundReal(x *Term, w int, constArgs bool) *Term {
	if x.IsConst() {
		// concrete: round exactly like the hardware
		f, _ := x.R.Float64()
		if w == 32 {
			f = float64(float32(f))
		}
		if constArgs || e.Cfg.Float == FloatRErr {
			if math.IsInf(f, 0) {
				panic(errorf("overflow in constant float arithmetic"))
			}
			return e.B.RealFromFloat(f)
		}
		return x
	}
	if e.Cfg.Float != FloatRErr {
		return x
	}
	// |err| <= u*|x| + eta
	e.rerrVars++
	er := e.B.Var(fmt.Sprintf("rerr!%d", e.rerrVars), RealSort)
	var u, eta *big.Rat
	if w == 32 {
		u = new(big.Rat).SetFrac(big.NewInt(1), new(big.Int).Lsh(big.NewInt(1), 24))
		eta = new(big.Rat).SetFrac(big.NewInt(1), new(big.Int).Lsh(big.NewInt(1), 150))
	} else {
		u = new(big.Rat).SetFrac(big.NewInt(1), new(big.Int).Lsh(big.NewInt(1), 53))
		eta = new(big.Rat).SetFrac(big.NewInt(1), new(big.Int).Lsh(big.NewInt(1), 1075))
	}
	zero := e.B.RealConst(new(big.Rat))
	// resolve |x| statically where the interval of x allows it
	if e.ivMemo == nil {
		e.ivMemo = map[int]ival{}
	}
	iv := e.interval(x, e.ivMemo)
	var bound *Term
	uf, _ := u.Float64()
	etaf, _ := eta.Float64()
	switch {
	case iv.lo >= 0:
		bound = e.B.RBin(ORAdd, e.B.RBin(ORMul, e.B.RealConst(u), x), e.B.RealConst(eta))
	case iv.hi <= 0:
		bound = e.B.RBin(ORAdd, e.B.RBin(ORMul, e.B.RealConst(u), e.B.RNeg(x)), e.B.RealConst(eta))
	case !math.IsInf(iv.lo, 0) && !math.IsInf(iv.hi, 0):
		// sign ambiguous: constant bound u*max|x| + eta (over-approximation)
		m := math.Max(-iv.lo, iv.hi)
		bound = e.B.RealFromFloat(math.Nextafter(uf*m*(1+1e-12)+etaf, math.Inf(1)))
	default:
		abs := e.B.Ite(e.B.RCmp(ORLe, zero, x), x, e.B.RNeg(x))
		bound = e.B.RBin(ORAdd, e.B.RBin(ORMul, e.B.RealConst(u), abs), e.B.RealConst(eta))
	}
	// interval of the error variable itself
	if !math.IsInf(iv.lo, 0) && !math.IsInf(iv.hi, 0) {
		m := math.Max(math.Abs(iv.lo), math.Abs(iv.hi))
		bnd := math.Nextafter(uf*m*(1+1e-12)+etaf, math.Inf(1))
		if e.varBounds == nil {
			e.varBounds = map[int]ival{}
		}
		e.varBounds[er.ID] = ival{-bnd, bnd}
	}
	e.assumeDef(e.B.And(e.B.RCmp(ORLe, e.B.RNeg(bound), er), e.B.RCmp(ORLe, er, bound)))
	res := e.B.RBin(ORAdd, x, er)
	if e.Cfg.MonotoneRounding {
		// rounding to nearest is one monotone function per width: p <= q => fl(p) <= fl(q)
		for _, prev := range e.roundings {
			if prev.w != w {
				continue
			}
			e.assumeDef(e.B.Implies(e.B.RCmp(ORLe, prev.exact, x), e.B.RCmp(ORLe, prev.rounded, res)))
			e.assumeDef(e.B.Implies(e.B.RCmp(ORLe, x, prev.exact), e.B.RCmp(ORLe, res, prev.rounded)))
		}
		e.roundings = append(e.roundings, roundingSite{x, res, w})
		e.noteAssumption("IEEE-754 round-to-nearest is a monotone function (instantiated for every pair of rounded operations of equal width)")
	}
	return res
}

// ---------------- conversions ----------------

func (e *Exec) conv(dst, src types.Type, x Value) Value {
	ud, us := dst.Underlying(), src.Underlying()
	switch us := us.(type) {
	case *types.Pointer:
		switch ud.(type) {
		case *types.Pointer:
			return x
		case *types.Basic: // unsafe.Pointer
			return x
		}
	case *types.Slice:
		// []byte/[]rune -> string
		sl := x.(*SliceV)
		n := int(e.Concretize(sl.Len, "length of slice converted to string"))
		if n > len(sl.A) {
			panic(boundExhausted{"string conversion beyond materialised cells"})
		}
		eb := us.Elem().Underlying().(*types.Basic)
		if eb.Kind() == types.Uint8 {
			e.countAlloc(int64(n), nil, nil)
			bs := make([]*Term, n)
			for i := 0; i < n; i++ {
				bs[i] = sl.A[i].(*Term)
			}
			return StringV{B: bs}
		}
		// []rune
		var out []*Term
		for i := 0; i < n; i++ {
			out = append(out, e.encodeRune(sl.A[i].(*Term))...)
		}
		e.countAlloc(int64(len(out)), nil, nil)
		return StringV{B: out}
	case *types.Basic:
		if db, ok := ud.(*types.Basic); ok {
			return e.convBasic(db, us, x)
		}
		if ds, ok := ud.(*types.Slice); ok && us.Info()&types.IsString != 0 {
			s := x.(StringV)
			eb := ds.Elem().Underlying().(*types.Basic)
			if eb.Kind() == types.Uint8 {
				e.countAlloc(int64(len(s.B)), nil, nil)
				cells := make([]Value, len(s.B))
				for i, b := range s.B {
					cells[i] = b
				}
				return e.mkSlice(cells)
			}
			cs, ok := e.concreteString(s)
			if !ok {
				panic(errorf("[]rune(symbolic string)"))
			}
			var cells []Value
			for _, r := range cs {
				cells = append(cells, e.B.BVConst(uint64(r), 32))
			}
			e.countAlloc(int64(4*len(cells)), nil, nil)
			return e.mkSlice(cells)
		}
		if _, ok := ud.(*types.Pointer); ok && us.Kind() == types.UnsafePointer {
			return x
		}
	}
	panic(errorf("unsupported conversion %v -> %v", src, dst))
}

// encodeRune produces the UTF-8 bytes of a rune term, forking on its class.
func (e *Exec) encodeRune(r *Term) []*Term {
	if r.IsConst() {
		v := rune(int32(r.C))
		buf := make([]byte, 4)
		n := utf8.EncodeRune(buf, v)
		out := make([]*Term, n)
		for i := 0; i < n; i++ {
			out[i] = e.B.BVConst(uint64(buf[i]), 8)
		}
		return out
	}
	c := func(v uint64) *Term { return e.B.BVConst(v, 32) }
	ex := func(hi, lo int, or uint64) *Term {
		return e.B.BvBin(OBvOr, e.B.BVConst(or, 8), e.B.ZeroExt(8-(hi-lo+1), e.B.Extract(hi, lo, r)))
	}
	switch {
	case e.Decide(e.B.BvCmp(OBvUlt, r, c(0x80))):
		return []*Term{e.B.Extract(7, 0, r)}
	case e.Decide(e.B.BvCmp(OBvUlt, r, c(0x800))):
		return []*Term{ex(10, 6, 0xC0), ex(5, 0, 0x80)}
	case e.Decide(e.B.OrN(e.B.BvCmp(OBvUlt, c(0x10FFFF), r), e.B.And(e.B.BvCmp(OBvUle, c(0xD800), r), e.B.BvCmp(OBvUle, r, c(0xDFFF))))):
		return []*Term{e.B.BVConst(0xEF, 8), e.B.BVConst(0xBF, 8), e.B.BVConst(0xBD, 8)}
	case e.Decide(e.B.BvCmp(OBvUlt, r, c(0x10000))):
		return []*Term{ex(15, 12, 0xE0), ex(11, 6, 0x80), ex(5, 0, 0x80)}
	default:
		return []*Term{ex(20, 18, 0xF0), ex(17, 12, 0x80), ex(11, 6, 0x80), ex(5, 0, 0x80)}
	}
}

func (e *Exec) convBasic(db, sb *types.Basic, x Value) Value {
	di, si := db.Info(), sb.Info()
	switch {
	case si&types.IsInteger != 0 && di&types.IsInteger != 0:
		if x.(*Term).Sort.K == SReal {
			return x
		}
		_, ssigned := e.intWidth(sb)
		dw, _ := e.intWidth(db)
		return e.B.Resize(x.(*Term), dw, ssigned)
	case si&types.IsInteger != 0 && di&types.IsFloat != 0:
		_, ssigned := e.intWidth(sb)
		fw := floatWidth(db)
		t := x.(*Term)
		if t.Sort.K == SReal {
			return t
		}
		if e.Cfg.Float == FloatFP {
			return e.B.FpFromBV(t, ssigned, fw)
		}
		if t.IsConst() {
			var f float64
			if ssigned {
				f = float64(sext(t.C, t.Sort.W))
				if fw == 32 {
					f = float64(float32(sext(t.C, t.Sort.W)))
				}
			} else {
				f = float64(t.C)
				if fw == 32 {
					f = float64(float32(t.C))
				}
			}
			return e.B.RealFromFloat(f)
		}
		r := e.B.BvToReal(t, ssigned)
		// integers up to 2^24 (float32) / 2^53 (float64) convert exactly
		if (fw == 32 && t.Sort.W <= 24) || (fw == 64 && t.Sort.W <= 53) || e.effectiveWidth(t) <= map[int]int{32: 24, 64: 53}[fw] {
			return r
		}
		return e.roundReal(r, fw, false)
	case si&types.IsFloat != 0 && di&types.IsFloat != 0:
		t := x.(*Term)
		dw, sw := floatWidth(db), floatWidth(sb)
		if e.Cfg.Float == FloatFP {
			return e.B.FpToFp(t, dw)
		}
		if dw >= sw {
			return t
		}
		return e.roundReal(t, 32, t.IsConst())
	case si&types.IsFloat != 0 && di&types.IsInteger != 0:
		return e.floatToInt(x.(*Term), db)
	case si&types.IsString != 0 && di&types.IsString != 0:
		return x
	case si&types.IsBoolean != 0 && di&types.IsBoolean != 0:
		return x
	case si&types.IsInteger != 0 && di&types.IsString != 0:
		t := x.(*Term)
		_, ssigned := e.intWidth(sb)
		return StringV{B: e.encodeRune(e.B.Resize(t, 32, ssigned))}
	case sb.Kind() == types.UnsafePointer || db.Kind() == types.UnsafePointer:
		return x
	}
	panic(errorf("unsupported basic conversion %v -> %v", sb, db))
}

// effectiveWidth is the number of low bits that can be non-zero.
func (e *Exec) effectiveWidth(t *Term) int {
	if t.Op == OZeroExt {
		return t.Args[0].Sort.W
	}
	return t.Sort.W
}

// floatToInt models gc/amd64: truncation toward zero; NaN and out-of-range
// values yield the "integer indefinite" value of the CVTT instruction used,
// truncated to the destination width.
func (e *Exec) floatToInt(t *Term, db *types.Basic) Value {
	dw, dsigned := e.intWidth(db)
	if e.Cfg.Float != FloatFP {
		if t.IsConst() {
			f, _ := t.R.Float64()
			return e.B.BVConst(uint64(int64(f)), dw)
		}
		// real modes: the truncated value is a fresh real k with k <= t < k+1
		// (integrality is dropped: an over-approximation), valid for t >= 0
		zero := e.B.RealConst(new(big.Rat))
		if r := e.check(e.B.RCmp(ORLt, t, zero)); r != Unsat {
			panic(errorf("float->int conversion of a possibly negative symbolic real"))
		}
		k := e.B.IntToReal(e.B.Fresh("trunc", IntSort))
		one := e.B.RealConst(big.NewRat(1, 1))
		e.assumeDef(e.B.And(e.B.RCmp(ORLe, k, t), e.B.RCmp(ORLt, t, e.B.RBin(ORAdd, k, one))))
		e.noteAssumption("real modes: float->int truncation is to_real of an integer k with k <= t < k+1; integer-typed values derived from it are carried as reals (no wrap-around modelled)")
		return k
	}
	if t.IsConst() {
		return e.B.BVConst(nativeFloatToInt(t.F, t.Sort.W, dw, dsigned), dw)
	}
	// instruction width: 64-bit CVTT for uint32/int64/uint64/int/uint, 32-bit otherwise
	iw := 32
	if dw == 64 || (dw == 32 && !dsigned) {
		iw = 64
	}
	fw := t.Sort.W
	lim := math.Ldexp(1, iw-1)
	inRange := e.B.And(e.B.FpCmp(OFpLt, e.B.FPConst(-lim-boundSlack(fw, lim), fw), t), e.B.FpCmp(OFpLt, t, e.B.FPConst(lim, fw)))
	// -2^(iw-1) itself is representable and converts exactly; (−lim−slack) is the next float below −lim
	conv := e.B.FpToBV(t, true, iw)
	indef := e.B.BVConst(uint64(1)<<uint(iw-1), iw)
	full := e.B.Ite(inRange, conv, indef)
	if dw == 64 && !dsigned {
		// uint64: gc emits a branch for values >= 2^63
		two63 := e.B.FPConst(math.Ldexp(1, 63), fw)
		hi := e.B.FpCmp(OFpLe, two63, t)
		hiConv := e.B.BvBin(OBvXor, e.B.Ite(e.B.FpCmp(OFpLt, e.B.FpBin(OFpSub, t, two63), two63), e.B.FpToBV(e.B.FpBin(OFpSub, t, two63), true, 64), indef), e.B.BVConst(1<<63, 64))
		return e.B.Ite(hi, hiConv, full)
	}
	return e.B.Resize(full, dw, true)
}

func boundSlack(fw int, lim float64) float64 {
	if fw == 32 {
		return float64(math.Float32frombits(math.Float32bits(float32(lim))+1)) - lim
	}
	return math.Float64frombits(math.Float64bits(lim)+1) - lim
}

func nativeFloatToInt(f float64, fw, dw int, dsigned bool) uint64 {
	if fw == 32 {
		g := float32(f)
		switch {
		case dw == 8 && dsigned:
			return uint64(int8(g))
		case dw == 8:
			return uint64(uint8(g))
		case dw == 16 && dsigned:
			return uint64(int16(g))
		case dw == 16:
			return uint64(uint16(g))
		case dw == 32 && dsigned:
			return uint64(int32(g))
		case dw == 32:
			return uint64(uint32(g))
		case dsigned:
			return uint64(int64(g))
		default:
			return uint64(g)
		}
	}
	switch {
	case dw == 8 && dsigned:
		return uint64(int8(f))
	case dw == 8:
		return uint64(uint8(f))
	case dw == 16 && dsigned:
		return uint64(int16(f))
	case dw == 16:
		return uint64(uint16(f))
	case dw == 32 && dsigned:
		return uint64(int32(f))
	case dw == 32:
		return uint64(uint32(f))
	case dsigned:
		return uint64(int64(f))
	default:
		return uint64(f)
	}
}

type roundingSite struct {
	exact, rounded *Term
	w              int
}

// realIntBinop: integer-typed values carried as reals (real-arithmetic harnesses):
// exact arithmetic and comparisons, no wrap-around.
func (e *Exec) realIntBinop(op token.Token, x, y *Term) Value {
	switch op {
	case token.ADD:
		return e.B.RBin(ORAdd, x, y)
	case token.SUB:
		return e.B.RBin(ORSub, x, y)
	case token.MUL:
		return e.B.RBin(ORMul, x, y)
	case token.LSS:
		return e.B.RCmp(ORLt, x, y)
	case token.LEQ:
		return e.B.RCmp(ORLe, x, y)
	case token.GTR:
		return e.B.RCmp(ORLt, y, x)
	case token.GEQ:
		return e.B.RCmp(ORLe, y, x)
	}
	panic(errorf("operator %v on an integer carried as a real", op))
}

func isIntegerType(t types.Type) bool {
	b, ok := t.Underlying().(*types.Basic)
	return ok && b.Info()&types.IsInteger != 0
}

// ratioBinop: exact real arithmetic on rational functions num/den; the solver only
// ever sees polynomial (in)equalities (DESIGN 2.5 (3)).
func (e *Exec) ratioBinop(op token.Token, x, y *Term, instr ssa.Instruction) Value {
	b := e.B
	xn, xd := b.NumDen(x)
	yn, yd := b.NumDen(y)
	mul := func(p, q *Term) *Term { return b.RBin(ORMul, p, q) }
	zero := b.RealConst(new(big.Rat))
	switch op {
	case token.ADD:
		if xd == yd {
			return b.Ratio(b.RBin(ORAdd, xn, yn), xd)
		}
		return b.Ratio(b.RBin(ORAdd, mul(xn, yd), mul(yn, xd)), mul(xd, yd))
	case token.SUB:
		if xd == yd {
			return b.Ratio(b.RBin(ORSub, xn, yn), xd)
		}
		return b.Ratio(b.RBin(ORSub, mul(xn, yd), mul(yn, xd)), mul(xd, yd))
	case token.MUL:
		return b.Ratio(mul(xn, yn), mul(xd, yd))
	case token.QUO:
		// divisor yn/yd must be non-zero on this path
		if r := e.check(b.Eq(yn, zero)); r != Unsat {
			e.recordViolation("divzero", "division by zero at "+e.posOf(instr), "divisor can be zero (finite inputs could produce Inf/NaN)", b.Eq(yn, zero))
			e.assume(b.Not(b.Eq(yn, zero)))
		} else {
			e.known[b.Eq(yn, zero).ID] = false
		}
		return b.Ratio(mul(xn, yd), mul(xd, yn))
	case token.LSS, token.LEQ, token.GTR, token.GEQ:
		// x ? y  <=>  (xn*yd - yn*xd) * (xd*yd) ? 0   (denominators non-zero)
		diff := mul(b.RBin(ORSub, mul(xn, yd), mul(yn, xd)), mul(xd, yd))
		switch op {
		case token.LSS:
			return b.RCmp(ORLt, diff, zero)
		case token.LEQ:
			return b.RCmp(ORLe, diff, zero)
		case token.GTR:
			return b.RCmp(ORLt, zero, diff)
		default:
			return b.RCmp(ORLe, zero, diff)
		}
	}
	panic(errorf("ratio binop %v", op))
}
