package sym

import (
	"bufio"
	"fmt"
	"io"
	"math/big"
	"os"
	"os/exec"
	"strconv"
	"strings"
	"sync/atomic"
	"time"
)

type Result int

const (
	Unsat Result = iota
	Sat
	Unknown
)

func (r Result) String() string { return [...]string{"unsat", "sat", "unknown"}[r] }

// Solver drives one long-lived SMT solver process. Definitions are global
// (:global-declarations); the assertion stack is managed with push/pop.
type Solver struct {
	Kind          string // z3 | z3-new | cvc5
	cmd           *exec.Cmd
	in            io.WriteCloser
	out           *bufio.Reader
	emitted       map[int]bool
	declared      map[string]bool
	depth         int
	Queries       int
	NSat          int
	NUnsat        int
	NUnknown      int
	Time          time.Duration
	ModelTime     time.Duration
	OneShots      int
	TimeoutMs     int // per-query timeout of the incremental process
	LongMs        int // timeout of one-shot (fresh process) queries
	Log           io.Writer
	seq           int
	Errors        []string
	WatchdogKills int
}

func NewSolver(kind string, timeoutMs int) (*Solver, error) {
	s := &Solver{Kind: kind, TimeoutMs: timeoutMs, LongMs: timeoutMs}
	if err := s.start(); err != nil {
		return nil, err
	}
	return s, nil
}

// start launches (or relaunches) the solver process with empty state.
func (s *Solver) start() error {
	kind, timeoutMs := s.Kind, s.TimeoutMs
	var cmd *exec.Cmd
	switch kind {
	case "z3":
		cmd = exec.Command("/usr/bin/z3", "-in")
	case "z3-new":
		cmd = exec.Command("z3-new", "-in")
	case "cvc5":
		cmd = exec.Command("cvc5", "--incremental", "--lang", "smt2", "--produce-models", "--global-declarations", fmt.Sprintf("--tlimit-per=%d", timeoutMs))
	default:
		return fmt.Errorf("unknown solver %q", kind)
	}
	in, err := cmd.StdinPipe()
	if err != nil {
		return err
	}
	outp, err := cmd.StdoutPipe()
	if err != nil {
		return err
	}
	cmd.Stderr = os.Stderr
	if err := cmd.Start(); err != nil {
		return err
	}
	s.cmd, s.in, s.out = cmd, in, bufio.NewReaderSize(outp, 1<<20)
	if d := os.Getenv("VERIF_SMTLOG"); d != "" && s.Log == nil {
		if f, err := os.Create(fmt.Sprintf("%s.%d.%d.smt2", d, os.Getpid(), cmd.Process.Pid)); err == nil {
			s.Log = f
		}
	}
	s.emitted, s.declared, s.depth = map[int]bool{}, map[string]bool{}, 0
	if kind == "cvc5" {
		s.send("(set-logic ALL)")
	} else {
		s.send("(set-option :global-declarations true)")
		s.send("(set-option :produce-models true)")
		s.send(fmt.Sprintf("(set-option :timeout %d)", timeoutMs))
	}
	return nil
}

func (s *Solver) Close() {
	if s.cmd != nil {
		s.in.Close()
		s.cmd.Process.Kill()
		s.cmd.Wait()
		s.cmd = nil
	}
}

func (s *Solver) send(line string) {
	if s.Log != nil {
		fmt.Fprintln(s.Log, line)
	}
	io.WriteString(s.in, line)
	io.WriteString(s.in, "\n")
}

// sync sends an echo marker and reads lines up to it.
func (s *Solver) sync() []string {
	s.seq++
	marker := fmt.Sprintf("@@%d@@", s.seq)
	s.send(fmt.Sprintf("(echo \"%s\")", marker))
	var lines []string
	for {
		l, err := s.out.ReadString('\n')
		if err != nil {
			s.Errors = append(s.Errors, "solver died: "+err.Error())
			lines = append(lines, "(error \"solver died\")")
			return lines
		}
		l = strings.TrimSpace(l)
		if l == marker || l == "\""+marker+"\"" {
			return lines
		}
		if l != "" {
			lines = append(lines, l)
		}
	}
}

// Define makes sure t and all its sub-terms are defined in the solver.
func (s *Solver) Define(t *Term) {
	if t.Op == OConst {
		return
	}
	if s.emitted[t.ID] {
		return
	}
	// iterative post-order to avoid deep recursion
	type fr struct {
		t *Term
		i int
	}
	stack := []fr{{t, 0}}
	for len(stack) > 0 {
		top := &stack[len(stack)-1]
		if top.t.Op == OConst || s.emitted[top.t.ID] {
			stack = stack[:len(stack)-1]
			continue
		}
		if top.i < len(top.t.Args) {
			a := top.t.Args[top.i]
			top.i++
			if a.Op != OConst && !s.emitted[a.ID] {
				stack = append(stack, fr{a, 0})
			}
			continue
		}
		tt := top.t
		stack = stack[:len(stack)-1]
		s.emitted[tt.ID] = true
		switch tt.Op {
		case OVar:
			s.send(fmt.Sprintf("(declare-fun %s () %s)", quoteName(tt.Name), tt.Sort.SMT()))
		case OApp:
			if !s.declared[tt.Name] {
				s.declared[tt.Name] = true
				var as []string
				for _, a := range tt.Args {
					as = append(as, a.Sort.SMT())
				}
				s.send(fmt.Sprintf("(declare-fun %s (%s) %s)", quoteName(tt.Name), strings.Join(as, " "), tt.Sort.SMT()))
			}
			s.send(fmt.Sprintf("(define-fun t%d () %s %s)", tt.ID, tt.Sort.SMT(), tt.body((*Term).ref)))
		default:
			s.send(fmt.Sprintf("(define-fun t%d () %s %s)", tt.ID, tt.Sort.SMT(), tt.body((*Term).ref)))
		}
	}
}

func (s *Solver) Push() {
	s.send("(push 1)")
	s.depth++
}

func (s *Solver) Pop() {
	s.send("(pop 1)")
	s.depth--
}

func (s *Solver) PopTo(d int) {
	for s.depth > d {
		s.Pop()
	}
}

func (s *Solver) Depth() int { return s.depth }

func (s *Solver) Assert(t *Term) {
	s.Define(t)
	s.send("(assert " + t.ref() + ")")
}

// Check runs check-sat on the current stack.
func (s *Solver) Check() Result { return s.checkCmd("(check-sat)") }

func (s *Solver) checkCmd(cmd string) Result {
	t0 := time.Now()
	s.send(cmd)
	lines, killed := s.syncWatched()
	s.Time += time.Since(t0)
	s.Queries++
	if killed {
		s.NUnknown++
		return Unknown
	}
	res := Unknown
	got := false
	for _, l := range lines {
		switch {
		case l == "sat":
			res, got = Sat, true
		case l == "unsat":
			res, got = Unsat, true
		case l == "unknown" || strings.HasPrefix(l, "timeout"):
			res, got = Unknown, true
		case strings.Contains(l, "error"):
			s.Errors = append(s.Errors, l)
			s.NUnknown++
			return Unknown
		}
	}
	if !got {
		s.Errors = append(s.Errors, "no answer: "+strings.Join(lines, " / "))
		res = Unknown
	}
	switch res {
	case Sat:
		s.NSat++
	case Unsat:
		s.NUnsat++
	default:
		s.NUnknown++
	}
	return res
}

// syncWatched is sync under a watchdog: the solver's own timeout is a soft one (z3 does
// not interrupt some preprocessing steps, nor model construction for get-value); an
// answer that overruns it by 50% + 5 s is not waited for: the process is killed, the
// query counts as unknown, and the solver is restarted with empty state (terms are
// re-defined on demand; nothing is ever asserted permanently).
func (s *Solver) syncWatched() ([]string, bool) {
	proc := s.cmd.Process
	var fired int32
	wd := time.AfterFunc(time.Duration(s.TimeoutMs)*time.Millisecond*3/2+5*time.Second, func() {
		atomic.StoreInt32(&fired, 1)
		proc.Kill()
	})
	lines := s.sync()
	wd.Stop()
	if atomic.LoadInt32(&fired) == 0 {
		return lines, false
	}
	s.in.Close()
	s.cmd.Wait()
	s.WatchdogKills++
	if n := len(s.Errors); n > 0 && strings.HasPrefix(s.Errors[n-1], "solver died") {
		s.Errors = s.Errors[:n-1]
	}
	if err := s.start(); err != nil {
		s.Errors = append(s.Errors, "solver restart failed: "+err.Error())
	}
	return nil, true
}

// CheckWith checks the stack plus extra assumptions (scoped).
func (s *Solver) CheckWith(extra ...*Term) Result {
	var refs []string
	for _, e := range extra {
		if e.IsConst() {
			if e.C == 0 {
				return Unsat
			}
			continue
		}
		s.Define(e)
		refs = append(refs, e.ref())
	}
	if len(refs) == 0 {
		return s.Check()
	}
	return s.checkCmd("(check-sat-assuming (" + strings.Join(refs, " ") + "))")
}

// ModelValue is a value read back from the solver.
type ModelValue struct {
	Sort  Sort
	Bits  uint64   // bool, bv, fp (IEEE bits)
	Rat   *big.Rat // real
	Raw   string
	Valid bool
}

// CheckModel checks with extra assumptions and on sat reads back values of ts.
func (s *Solver) CheckModel(ts []*Term, extra ...*Term) (Result, []ModelValue) {
	for _, e := range extra {
		s.Define(e)
	}
	for _, t := range ts {
		s.Define(t)
	}
	r := s.CheckWith(extra...)
	if r != Sat || len(ts) == 0 {
		return r, nil
	}
	vals := make([]ModelValue, len(ts))
	// query in batches
	const batch = 64
	for i := 0; i < len(ts); i += batch {
		j := i + batch
		if j > len(ts) {
			j = len(ts)
		}
		var refs []string
		for _, t := range ts[i:j] {
			refs = append(refs, t.ref())
		}
		tg := time.Now()
		s.send("(get-value (" + strings.Join(refs, " ") + "))")
		lines, killed := s.syncWatched()
		s.ModelTime += time.Since(tg)
		if killed {
			return Unknown, nil
		}
		txt := strings.Join(lines, " ")
		if strings.Contains(txt, "(error") {
			s.Errors = append(s.Errors, txt)
			return Unknown, nil
		}
		pairs := parsePairs(txt)
		if len(pairs) != j-i {
			s.Errors = append(s.Errors, fmt.Sprintf("get-value: expected %d pairs got %d: %s", j-i, len(pairs), txt))
			return Unknown, nil
		}
		for k, p := range pairs {
			vals[i+k] = parseValue(ts[i+k].Sort, p)
		}
	}
	return r, vals
}

// ---- s-expression parsing for get-value ----

type sexp struct {
	atom string
	list []*sexp
}

func parseSexp(s string, pos *int) *sexp {
	for *pos < len(s) && (s[*pos] == ' ' || s[*pos] == '\n' || s[*pos] == '\t') {
		*pos++
	}
	if *pos >= len(s) {
		return nil
	}
	if s[*pos] == '(' {
		*pos++
		e := &sexp{list: []*sexp{}}
		for {
			for *pos < len(s) && (s[*pos] == ' ' || s[*pos] == '\n' || s[*pos] == '\t') {
				*pos++
			}
			if *pos >= len(s) {
				return e
			}
			if s[*pos] == ')' {
				*pos++
				return e
			}
			c := parseSexp(s, pos)
			if c == nil {
				return e
			}
			e.list = append(e.list, c)
		}
	}
	if s[*pos] == '|' {
		j := strings.IndexByte(s[*pos+1:], '|')
		a := s[*pos : *pos+j+2]
		*pos += j + 2
		return &sexp{atom: a}
	}
	st := *pos
	for *pos < len(s) && s[*pos] != ' ' && s[*pos] != ')' && s[*pos] != '(' && s[*pos] != '\n' {
		*pos++
	}
	return &sexp{atom: s[st:*pos]}
}

func parsePairs(txt string) []*sexp {
	pos := 0
	e := parseSexp(txt, &pos)
	if e == nil {
		return nil
	}
	var out []*sexp
	for _, p := range e.list {
		if len(p.list) == 2 {
			out = append(out, p.list[1])
		}
	}
	return out
}

func (e *sexp) String() string {
	if e.list == nil {
		return e.atom
	}
	var parts []string
	for _, c := range e.list {
		parts = append(parts, c.String())
	}
	return "(" + strings.Join(parts, " ") + ")"
}

func parseBVAtom(a string) (uint64, int, bool) {
	if strings.HasPrefix(a, "#x") {
		v, err := strconv.ParseUint(a[2:], 16, 64)
		return v, 4 * (len(a) - 2), err == nil
	}
	if strings.HasPrefix(a, "#b") {
		v, err := strconv.ParseUint(a[2:], 2, 64)
		return v, len(a) - 2, err == nil
	}
	return 0, 0, false
}

func parseRat(e *sexp) (*big.Rat, bool) {
	if e.list == nil {
		r, ok := new(big.Rat).SetString(e.atom)
		return r, ok
	}
	if len(e.list) == 2 && e.list[0].atom == "-" {
		r, ok := parseRat(e.list[1])
		if !ok {
			return nil, false
		}
		return r.Neg(r), true
	}
	if len(e.list) == 3 && e.list[0].atom == "/" {
		a, ok1 := parseRat(e.list[1])
		c, ok2 := parseRat(e.list[2])
		if !ok1 || !ok2 || c.Sign() == 0 {
			return nil, false
		}
		return a.Quo(a, c), true
	}
	return nil, false
}

func parseValue(so Sort, e *sexp) ModelValue {
	mv := ModelValue{Sort: so, Raw: e.String()}
	switch so.K {
	case SBool:
		if e.atom == "true" {
			mv.Bits, mv.Valid = 1, true
		} else if e.atom == "false" {
			mv.Valid = true
		}
	case SBV:
		if e.list == nil {
			if v, _, ok := parseBVAtom(e.atom); ok {
				mv.Bits, mv.Valid = v, true
			}
		} else if len(e.list) == 3 && e.list[0].atom == "_" && strings.HasPrefix(e.list[1].atom, "bv") {
			v, err := strconv.ParseUint(e.list[1].atom[2:], 10, 64)
			if err == nil {
				mv.Bits, mv.Valid = v, true
			}
		}
	case SFP:
		eb, sb := 8, 24
		if so.W == 64 {
			eb, sb = 11, 53
		}
		if len(e.list) == 4 && e.list[0].atom == "fp" {
			sg, _, ok1 := parseBVAtom(e.list[1].atom)
			ex, _, ok2 := parseBVAtom(e.list[2].atom)
			ma, _, ok3 := parseBVAtom(e.list[3].atom)
			if ok1 && ok2 && ok3 {
				mv.Bits = sg<<uint(eb+sb-1) | ex<<uint(sb-1) | ma
				mv.Valid = true
			}
		} else if len(e.list) == 4 && e.list[0].atom == "_" {
			expAll := mask(eb) << uint(sb-1)
			switch e.list[1].atom {
			case "NaN":
				mv.Bits, mv.Valid = expAll|1<<uint(sb-2), true
			case "+oo":
				mv.Bits, mv.Valid = expAll, true
			case "-oo":
				mv.Bits, mv.Valid = expAll|1<<uint(eb+sb-1), true
			case "+zero":
				mv.Bits, mv.Valid = 0, true
			case "-zero":
				mv.Bits, mv.Valid = 1<<uint(eb+sb-1), true
			}
		}
	case SReal:
		if r, ok := parseRat(e); ok {
			mv.Rat, mv.Valid = r, true
		}
	}
	return mv
}

// ---------------- one-shot (non-incremental) portfolio queries ----------------
//
// Bit-precise floating-point obligations are decided far faster by a fresh
// solver process in non-incremental mode (full preprocessing) than through
// check-sat-assuming on the long-lived process. OneShot serialises the terms
// into a standalone script and runs z3 and cvc5 side by side; the first
// definitive answer wins.

func scriptFor(lits []*Term, vals []*Term, logic string) string {
	var sb strings.Builder
	if logic != "" {
		fmt.Fprintf(&sb, "(set-logic %s)\n", logic)
	}
	sb.WriteString("(set-option :produce-models true)\n")
	emitted := map[int]bool{}
	declared := map[string]bool{}
	var emit func(t *Term)
	emit = func(t *Term) {
		if t.Op == OConst || emitted[t.ID] {
			return
		}
		emitted[t.ID] = true
		for _, a := range t.Args {
			emit(a)
		}
		switch t.Op {
		case OVar:
			fmt.Fprintf(&sb, "(declare-fun %s () %s)\n", quoteName(t.Name), t.Sort.SMT())
		case OApp:
			if !declared[t.Name] {
				declared[t.Name] = true
				var as []string
				for _, a := range t.Args {
					as = append(as, a.Sort.SMT())
				}
				fmt.Fprintf(&sb, "(declare-fun %s (%s) %s)\n", quoteName(t.Name), strings.Join(as, " "), t.Sort.SMT())
			}
			fmt.Fprintf(&sb, "(define-fun t%d () %s %s)\n", t.ID, t.Sort.SMT(), t.body((*Term).ref))
		default:
			fmt.Fprintf(&sb, "(define-fun t%d () %s %s)\n", t.ID, t.Sort.SMT(), t.body((*Term).ref))
		}
	}
	for _, l := range lits {
		emit(l)
	}
	for _, v := range vals {
		emit(v)
	}
	for _, l := range lits {
		fmt.Fprintf(&sb, "(assert %s)\n", l.ref())
	}
	sb.WriteString("(check-sat)\n")
	if len(vals) > 0 {
		var refs []string
		for _, v := range vals {
			refs = append(refs, v.ref())
		}
		fmt.Fprintf(&sb, "(get-value (%s))\n", strings.Join(refs, " "))
	}
	return sb.String()
}

type oneShotAnswer struct {
	res    Result
	vals   []ModelValue
	solver string
	errs   string
}

func runOneShot(kind, script string, vals []*Term, timeoutMs int) oneShotAnswer {
	var cmd *exec.Cmd
	switch kind {
	case "z3":
		cmd = exec.Command("/usr/bin/z3", "-in", "-smt2", fmt.Sprintf("-T:%d", (timeoutMs+999)/1000))
	case "z3-new":
		cmd = exec.Command("z3-new", "-in", "-smt2", fmt.Sprintf("-T:%d", (timeoutMs+999)/1000))
	default:
		cmd = exec.Command("cvc5", "--lang", "smt2", "--produce-models", fmt.Sprintf("--tlimit=%d", timeoutMs))
	}
	cmd.Stdin = strings.NewReader(script)
	out, _ := cmd.CombinedOutput()
	txt := string(out)
	ans := oneShotAnswer{res: Unknown, solver: kind}
	lines := strings.Split(txt, "\n")
	first := ""
	for _, l := range lines {
		l = strings.TrimSpace(l)
		if l == "sat" || l == "unsat" || l == "unknown" || l == "timeout" {
			first = l
			break
		}
		if strings.Contains(l, "error") && !strings.Contains(l, "model is not available") {
			ans.errs = l
		}
	}
	switch first {
	case "sat":
		ans.res = Sat
	case "unsat":
		ans.res = Unsat
	}
	if ans.res == Sat && len(vals) > 0 {
		i := strings.Index(txt, "sat")
		rest := txt[i+3:]
		pairs := parsePairs(rest)
		if len(pairs) == len(vals) {
			ans.vals = make([]ModelValue, len(vals))
			for k, p := range pairs {
				ans.vals[k] = parseValue(vals[k].Sort, p)
			}
		} else {
			ans.res = Unknown
			ans.errs = "could not parse model"
		}
	}
	return ans
}

// OneShot decides the conjunction of lits with fresh solver processes.
func (s *Solver) OneShot(lits []*Term, vals []*Term, timeoutMs int, solvers []string) (Result, []ModelValue) {
	t0 := time.Now()
	script := scriptFor(lits, vals, "")
	if d := os.Getenv("VERIF_DUMP"); d != "" {
		s.OneShots++
		os.WriteFile(fmt.Sprintf("%s.%d.%d.smt2", d, os.Getpid(), s.OneShots+1000*len(lits)), []byte(script), 0o644)
		s.OneShots--
	}
	if len(solvers) == 0 {
		solvers = []string{"z3", "cvc5", "z3-new"}
	}
	ch := make(chan oneShotAnswer, len(solvers))
	for _, k := range solvers {
		go func(k string) { ch <- runOneShot(k, script, vals, timeoutMs) }(k)
	}
	var best oneShotAnswer
	best.res = Unknown
	for range solvers {
		a := <-ch
		if a.errs != "" && a.res == Unknown {
			s.Errors = append(s.Errors, a.solver+": "+a.errs)
		}
		if a.res != Unknown {
			best = a
			break
		}
	}
	s.Time += time.Since(t0)
	s.Queries++
	switch best.res {
	case Sat:
		s.NSat++
	case Unsat:
		s.NUnsat++
	default:
		s.NUnknown++
	}
	s.OneShots++
	return best.res, best.vals
}
