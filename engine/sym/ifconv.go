package sym

import (
	"go/token"
	"go/types"
	"sync"

	"golang.org/x/tools/go/ssa"
)

// Block-level if-conversion: a branch on a symbolic condition whose arms are
// short, side-effect free and panic-free blocks rejoining at a common block is
// executed on both arms and the phi-nodes of the join are merged with ite.

type ifConvInfo struct {
	arms [2]*ssa.BasicBlock // nil arm = edge goes directly to join
	join *ssa.BasicBlock
}

var ifConvCache sync.Map // *ssa.If -> *ifConvInfo

func pureInstr(in ssa.Instruction) bool {
	switch v := in.(type) {
	case *ssa.DebugRef:
		return true
	case *ssa.BinOp:
		switch v.Op {
		case token.QUO, token.REM:
			// integer division is admitted; the executor proves the divisor
			// non-zero under the arm's condition or abandons the conversion
			_, ok := v.X.Type().Underlying().(*types.Basic)
			return ok
		case token.SHL, token.SHR:
			// negative signed shift counts panic
			if _, isConst := v.Y.(*ssa.Const); isConst {
				return true
			}
			b, ok := v.Y.Type().Underlying().(*types.Basic)
			return ok && b.Info()&types.IsUnsigned != 0
		case token.EQL, token.NEQ:
			// comparisons of interfaces may panic; restrict to basic types
			_, ok := v.X.Type().Underlying().(*types.Basic)
			return ok
		}
		_, ok := v.X.Type().Underlying().(*types.Basic)
		return ok
	case *ssa.UnOp:
		return v.Op == token.NOT || v.Op == token.SUB || v.Op == token.XOR
	case *ssa.Convert:
		_, ok1 := v.X.Type().Underlying().(*types.Basic)
		b2, ok2 := v.Type().Underlying().(*types.Basic)
		if !ok1 || !ok2 {
			return false
		}
		return b2.Info()&types.IsString == 0
	case *ssa.ChangeType:
		return true
	}
	return false
}

func pureArm(b *ssa.BasicBlock) (*ssa.BasicBlock, bool) {
	if len(b.Preds) != 1 || len(b.Instrs) > 14 || len(b.Succs) != 1 {
		return nil, false
	}
	for i, in := range b.Instrs {
		if i == len(b.Instrs)-1 {
			if _, ok := in.(*ssa.Jump); !ok {
				return nil, false
			}
			break
		}
		if !pureInstr(in) {
			return nil, false
		}
	}
	return b.Succs[0], true
}

func analyseIfConv(instr *ssa.If) *ifConvInfo {
	b := instr.Block()
	t, f := b.Succs[0], b.Succs[1]
	jt, okT := pureArm(t)
	jf, okF := pureArm(f)
	switch {
	case okT && okF && jt == jf && jt != t && jt != f:
		return &ifConvInfo{arms: [2]*ssa.BasicBlock{t, f}, join: jt}
	case okT && jt == f:
		return &ifConvInfo{arms: [2]*ssa.BasicBlock{t, nil}, join: f}
	case okF && jf == t:
		return &ifConvInfo{arms: [2]*ssa.BasicBlock{nil, f}, join: t}
	}
	return nil
}

func predIndex(b, pred *ssa.BasicBlock) int {
	for i, p := range b.Preds {
		if p == pred {
			return i
		}
	}
	return -1
}

// tryIfConvert returns true when the branch was converted; fr.block is then the
// join block with its phis already evaluated.
func (e *Exec) tryIfConvert(fr *frame, instr *ssa.If, cond *Term) bool {
	if e.Cfg.NoMerge {
		return false
	}
	v, ok := ifConvCache.Load(instr)
	if !ok {
		ci := analyseIfConv(instr)
		ifConvCache.Store(instr, ci)
		v = ci
	}
	ci := v.(*ifConvInfo)
	if ci == nil {
		return false
	}
	cur := instr.Block()
	var from [2]*ssa.BasicBlock
	for k := 0; k < 2; k++ {
		arm := ci.arms[k]
		if arm == nil {
			from[k] = cur
			continue
		}
		from[k] = arm
		ck := cond
		if k == 1 {
			ck = e.B.Not(cond)
		}
		if !e.runArm(fr, arm, ck) {
			return false
		}
	}
	// a join with both edges from cur (if c goto J else J) cannot be told apart
	it, iff := predIndex(ci.join, from[0]), predIndex(ci.join, from[1])
	if it < 0 || iff < 0 || (from[0] == from[1]) {
		return false
	}
	var phis []*ssa.Phi
	var vals []Value
	for _, in := range ci.join.Instrs {
		phi, ok := in.(*ssa.Phi)
		if !ok {
			break
		}
		m, ok := e.mergeVal(cond, fr.get(phi.Edges[it]), fr.get(phi.Edges[iff]))
		if !ok {
			return false
		}
		phis = append(phis, phi)
		vals = append(vals, m)
	}
	for i, phi := range phis {
		fr.env[phi] = vals[i]
	}
	fr.prevBlock, fr.block = from[0], ci.join
	fr.skipPhis = true
	e.ifConverted++
	return true
}

func (e *Exec) runArm(fr *frame, arm *ssa.BasicBlock, ck *Term) (ok bool) {
	saved := e.specCond
	e.specCond = ck
	defer func() {
		e.specCond = saved
		if r := recover(); r != nil {
			if _, isAbort := r.(mergeAbort); isAbort {
				ok = false
				return
			}
			panic(r)
		}
	}()
	for _, in := range arm.Instrs[:len(arm.Instrs)-1] {
		e.visitInstr(fr, in)
	}
	return true
}
