package sym

import (
	"fmt"
	"go/constant"
	"go/token"
	"go/types"
	"math"
	"math/big"
	"os"
	"strings"
	"time"

	"golang.org/x/tools/go/ssa"
)

type FloatMode int

const (
	FloatFP   FloatMode = iota // bit-precise IEEE
	FloatReal                  // exact real arithmetic
	FloatRErr                  // reals + rounding error variables
)

type Decision struct {
	Taken  bool
	Forced bool
	Val    uint64 // for concretisation decisions: the value tested
}

type Config struct {
	Float       FloatMode
	MaxSteps    int   // per path instruction budget (0 = default)
	MaxDepth    int   // call depth
	AllocBudget int64 // bytes; 0 = unchecked
	StepBudget  int64 // C09 instruction budget; 0 = unchecked
	InitPkgs    map[string]bool
	Trace       bool
	LogAccess   bool
	MapOrderRev bool
	NoMerge     bool
	MergeFuncs  map[string]bool
	StopAfterUnknown   bool // end a path at its first undecided assertion (best-effort runs)
	// PortfolioFallback: feasibility queries go to the incremental solver with a short
	// timeout (10 s); one that comes back unknown (or is killed by the watchdog) is asked
	// again of fresh z3 / cvc5 / z3-new processes with the full timeout. Non-linear real
	// queries that stall z3's incremental nlsat are often immediate for another back end.
	PortfolioFallback bool
	StopAfterViolation bool // end a path at its first violated assertion (expensive NRA harnesses)
	OneShotAll     bool // every query goes to fresh non-incremental solver processes
	OneShotAsserts bool // decide assertions with fresh non-incremental solver processes (z3 and cvc5 side by side)
	MonotoneRounding bool // rerr mode: add p<=q => fl(p)<=fl(q) for all pairs of rounded operations
	IntInputsAsReal bool // real modes: verifU8/U16 inputs are integers carried as reals
	UFTables    bool // abstract large tables at symbolic indices as uninterpreted functions
}

type frame struct {
	e         *Exec
	caller    *frame
	fn        *ssa.Function
	block     *ssa.BasicBlock
	prevBlock *ssa.BasicBlock
	env       map[ssa.Value]Value
	locals    []Value
	defers    []*deferred
	result    Value
	panicking bool
	panicVal  interface{}
	goID      int
	skipPhis  bool
}

type deferred struct {
	fn    Value
	args  []Value
	instr *ssa.Defer
}

// Exec is the state of one path execution.
type Exec struct {
	B       *Builder
	S       *Solver
	Prog    *ssa.Program
	Cfg     Config
	sizes   types.Sizes
	globals map[*ssa.Global]*Value

	prefix []Decision
	pos    int
	trace  []Decision
	forks  [][]Decision // alternative prefixes discovered on this path
	known  map[int]bool // termID -> truth value already implied by the path condition
	pcs    []*Term

	steps     int64
	depth     int
	allocated int64
	calls     map[string]int
	inputs    []*Term // harness input variables in creation order
	inputTags []string
	nInput    int

	hooks      map[string]func(e *Exec, fr *frame, args []Value) Value
	violations []*Violation
	reaches    map[string]bool
	notes      []string
	accessLog  []Access
	curGo      int
	nGo        int
	unknowns   int
	rerrVars   int
	userData   map[string]interface{}

	fmtCalls    []FmtCall
	timeDates   [][]Value
	onceDone    map[*Value]bool
	mathHook    func(e *Exec, name string, args []Value) (Value, bool)
	assumptions map[string]bool
	harness     string
	tracker     *violTracker
	merging     int
	mergedCalls int
	ifConverted int
	specCond    *Term
	roundings   []roundingSite
	scopes      []int
	defs        []*Term
	cbrts       map[int]*Term
	logging     bool
	logSeg      string
	logCount    map[accessKey]int
	lowerIdx    map[int]int
	callSites   []ssa.Instruction // call-site instructions of the active frames
	lastInstr   ssa.Instruction // the instruction being executed (position of builtin accesses in the C11 log)
	deadline    time.Time
	varBounds   map[int]ival
	ivMemo      map[int]ival
	ufTables   map[*Value][]*ufTable
	ufOrder     []*ufTable
	ufFacts     []*Term
	model       Model
	relVars     []*Term
	relSeen     map[int]bool
	nAsserts    int
	nTrivial    int
	inconclusive []string
}

type Access struct {
	Seg    string // log segment label
	Loc    *Value // cell accessed / sync object
	Write  bool
	Go     int // goroutine (0 = the harness's)
	Other  int // for go/end events: the other goroutine
	Instr  ssa.Instruction
	Seq    int
	Sync   string // "" for plain accesses
}

type Violation struct {
	Label   string
	Model   map[string]ModelValue
	Inputs  []InputVal
	Path    []Decision
	HasModel bool
	Kind    string // assert | panic | alloc | steps
	Detail  string
	Harness string
}

type InputVal struct {
	Name string
	Tag  string
	Sort Sort
	Val  ModelValue
}

func (e *Exec) runtimePanic(msg string) targetPanic {
	return targetPanic{IfaceV{T: e.runtimeErrorType(), V: e.mkString("runtime error: " + msg)}}
}

// a named string type standing for runtime.Error values (the programs under
// test only format them)
var rtErrType types.Type = types.NewNamed(types.NewTypeName(token.NoPos, nil, "runtime.Error", nil), types.Typ[types.String], nil)

func (e *Exec) runtimeErrorType() types.Type { return rtErrType }

func (fr *frame) get(key ssa.Value) Value {
	switch key := key.(type) {
	case nil:
		return nil
	case *ssa.Function:
		return &FuncV{Fn: key}
	case *ssa.Builtin:
		return key
	case *ssa.Const:
		return fr.e.constValue(key)
	case *ssa.Global:
		if r, ok := fr.e.globals[key]; ok {
			return r
		}
		panic(errorf("no storage for global %v", key))
	}
	if r, ok := fr.env[key]; ok {
		return r
	}
	panic(errorf("get: no value for %T %v in %v", key, key.Name(), fr.fn))
}

func (e *Exec) floatConst(f float64, w int) *Term {
	if e.Cfg.Float == FloatFP {
		return e.B.FPConst(f, w)
	}
	if w == 32 {
		f = float64(float32(f))
	}
	return e.B.RealFromFloat(f)
}

func (e *Exec) constValue(c *ssa.Const) Value {
	if c.Value == nil {
		return e.zero(c.Type())
	}
	t := c.Type().Underlying()
	if b, ok := t.(*types.Basic); ok {
		switch {
		case b.Info()&types.IsBoolean != 0:
			return e.B.Bool(constant.BoolVal(c.Value))
		case b.Info()&types.IsInteger != 0:
			w, signed := e.intWidth(b)
			if signed {
				return e.B.BVConst(uint64(c.Int64()), w)
			}
			return e.B.BVConst(c.Uint64(), w)
		case b.Info()&types.IsFloat != 0:
			if b.Kind() == types.Float32 {
				f, _ := constant.Float32Val(c.Value)
				return e.floatConst(float64(f), 32)
			}
			f, _ := constant.Float64Val(c.Value)
			return e.floatConst(f, 64)
		case b.Info()&types.IsString != 0:
			if c.Value.Kind() == constant.String {
				return e.mkString(constant.StringVal(c.Value))
			}
			return e.mkString(string(rune(c.Int64())))
		}
	}
	if tp, ok := t.(*types.TypeParam); ok {
		panic(errorf("const of type param %v", tp))
	}
	panic(errorf("constValue: unexpected %v of type %v", c, c.Type()))
}

// ---------------- path condition and decisions ----------------

func (e *Exec) assume(c *Term) {
	if c.IsConst() {
		if c.C == 0 {
			panic(pathAbort{"assume(false)"})
		}
		return
	}
	if e.model != nil {
		if v, ok := EvalBV(c, e.model); !ok || v == 0 {
			e.model = nil
		}
	}
	// a counting loop adds k < x for k = 0,1,2,...: keep only the strongest lower bound
	if (c.Op == OBvUlt || c.Op == OBvSlt) && c.Args[0].IsConst() && !c.Args[1].IsConst() {
		if e.lowerIdx == nil {
			e.lowerIdx = map[int]int{}
		}
		key := c.Args[1].ID*2 + map[bool]int{true: 1, false: 0}[c.Op == OBvSlt]
		if i, ok := e.lowerIdx[key]; ok && i < len(e.pcs) && e.pcs[i].Op == c.Op && e.pcs[i].Args[1] == c.Args[1] && len(e.scopes) == 0 && e.merging == 0 {
			old := e.pcs[i].Args[0]
			stronger := old.C <= c.Args[0].C
			if c.Op == OBvSlt {
				stronger = sext(old.C, old.Sort.W) <= sext(c.Args[0].C, c.Sort.W) || sext(old.C, old.Sort.W) <= sext(c.Args[0].C, old.Sort.W)
			}
			if stronger {
				e.pcs[i] = c
				e.known[c.ID] = true
				e.noteVars(c)
				return
			}
		}
		e.lowerIdx[key] = len(e.pcs)
	}
	e.pcs = append(e.pcs, c)
	e.noteVars(c)
	if e.Cfg.Float != FloatFP {
		e.noteBounds(c)
	}
	e.known[c.ID] = true
	if c.Op == ONot {
		e.known[c.Args[0].ID] = false
	} else if c.Op == OAnd {
		for _, a := range c.Args {
			e.known[a.ID] = true
		}
	}
}

// assumeDef adds a definitional constraint on fresh variables (rounding-error
// bounds, division and truncation witnesses). Such constraints are satisfiable
// whatever the path, so they survive the merging of a call's sub-paths.
func (e *Exec) assumeDef(c *Term) {
	e.defs = append(e.defs, c)
	e.assume(c)
}

// Decide picks a branch for condition c, forking when both sides are feasible.
// A cached model of the path condition witnesses one side without a query.
func (e *Exec) Decide(c *Term) bool {
	if c.IsConst() {
		return c.C != 0
	}
	if v, ok := e.known[c.ID]; ok {
		return v
	}
	if c.Op == ONot {
		if v, ok := e.known[c.Args[0].ID]; ok {
			return !v
		}
	}
	if e.pos < len(e.prefix) {
		d := e.prefix[e.pos]
		e.pos++
		e.trace = append(e.trace, d)
		if d.Taken {
			if d.Forced {
				e.known[c.ID] = true
			} else {
				e.assume(c)
			}
		} else {
			if d.Forced {
				e.known[c.ID] = false
			} else {
				e.assume(e.B.Not(c))
			}
		}
		return d.Taken
	}
	if e.merging > 0 {
		// inside a merged call both sides are explored without feasibility
		// queries: an infeasible side only contributes an ite arm whose
		// condition is false under the path condition
		alt := make([]Decision, len(e.trace), len(e.trace)+1)
		copy(alt, e.trace)
		alt = append(alt, Decision{Taken: false})
		e.forks = append(e.forks, alt)
		e.trace = append(e.trace, Decision{Taken: true})
		e.assume(c)
		return true
	}
	// concolic policy: with a valid model, follow the side it satisfies (the
	// model stays valid) and ask the solver only about the other side
	if e.model != nil {
		if v, ok := EvalBV(c, e.model); ok {
			side := v != 0
			other := c
			if side {
				other = e.B.Not(c)
			}
			r := e.check(other)
			if r == Unsat {
				e.trace = append(e.trace, Decision{Taken: side, Forced: true})
				e.known[c.ID] = side
				return side
			}
			if r == Unknown {
				e.unknowns++
			}
			alt := make([]Decision, len(e.trace), len(e.trace)+1)
			copy(alt, e.trace)
			alt = append(alt, Decision{Taken: !side})
			e.forks = append(e.forks, alt)
			e.trace = append(e.trace, Decision{Taken: side})
			if side {
				e.assume(c)
			} else {
				e.assume(e.B.Not(c))
			}
			return side
		}
	}
	// no usable model: get one for the true side
	r, modelT := e.checkModel(c)
	switch r {
	case Unsat:
		e.trace = append(e.trace, Decision{Taken: false, Forced: true})
		e.known[c.ID] = false
		return false
	case Unknown:
		e.unknowns++
	}
	rf := e.check(e.B.Not(c))
	if rf == Unsat {
		e.trace = append(e.trace, Decision{Taken: true, Forced: true})
		e.known[c.ID] = true
		if modelT != nil {
			e.model = modelT
		}
		return true
	}
	if rf == Unknown {
		e.unknowns++
	}
	// fork: follow true, queue false
	alt := make([]Decision, len(e.trace), len(e.trace)+1)
	copy(alt, e.trace)
	alt = append(alt, Decision{Taken: false})
	e.forks = append(e.forks, alt)
	e.trace = append(e.trace, Decision{Taken: true})
	if modelT != nil {
		e.model = modelT
	}
	e.assume(c)
	return true
}

// check decides satisfiability of the path condition plus extra literals.
// The path condition is passed as assumptions (check-sat-assuming): nothing is
// ever asserted or popped, so the solver keeps its internalised terms.
func (e *Exec) check(extra ...*Term) Result {
	for round := 0; ; round++ {
		lits := make([]*Term, 0, len(e.pcs)+len(extra)+len(e.ufFacts))
		lits = append(lits, e.pcs...)
		lits = append(lits, e.ufFacts...)
		lits = append(lits, extra...)
		var r Result
		if e.Cfg.OneShotAll {
			r, _ = e.S.OneShot(lits, nil, e.S.LongMs, nil)
		} else {
			t0 := time.Now()
			r = e.S.CheckWith(lits...)
			if d := os.Getenv("VERIF_SLOW"); d != "" && time.Since(t0) > 5*time.Second {
				os.WriteFile(fmt.Sprintf("%s.%d.%d.smt2", d, os.Getpid(), len(lits)), []byte(scriptFor(lits, nil, "")), 0o644)
			}
			if r == Unknown && e.Cfg.PortfolioFallback {
				r, _ = e.S.OneShot(lits, nil, e.S.LongMs, nil)
			}
		}
		if r != Sat || len(e.ufOrder) == 0 {
			return r
		}
		added, ok := e.ufRefine(lits)
		if !ok {
			return Unknown
		}
		if !added {
			return Sat
		}
		if round > 200 {
			return Unknown
		}
	}
}

func (e *Exec) checkVals(ts []*Term, extra ...*Term) (Result, []ModelValue) {
	if r := e.check(extra...); r != Sat {
		return r, nil
	}
	lits := make([]*Term, 0, len(e.pcs)+len(extra)+len(e.ufFacts))
	lits = append(lits, e.pcs...)
	lits = append(lits, e.ufFacts...)
	lits = append(lits, extra...)
	if e.Cfg.OneShotAll {
		return e.S.OneShot(lits, ts, e.S.LongMs, nil)
	}
	r, vals := e.S.CheckModel(ts, lits...)
	if r == Unknown && e.Cfg.PortfolioFallback {
		return e.S.OneShot(lits, ts, e.S.LongMs, nil)
	}
	return r, vals
}

// checkModel checks PC ∧ c and returns a model over the input variables.
func (e *Exec) checkModel(c *Term) (Result, Model) {
	vars := e.modelVars(c)
	r, vals := e.checkVals(vars, c)
	if r != Sat {
		return r, nil
	}
	m := Model{}
	for i, v := range vars {
		if !vals[i].Valid {
			return r, nil
		}
		m[v.ID] = vals[i].Bits
	}
	return r, m
}

// modelVars: the BV/Bool variables occurring in the path condition or in c.
// Variables outside this set are unconstrained, so any value (zero) extends
// the model.
func (e *Exec) modelVars(c *Term) []*Term {
	out := append([]*Term(nil), e.relVars...)
	if c != nil {
		seen := map[int]bool{}
		var walk func(t *Term)
		walk = func(t *Term) {
			if seen[t.ID] || e.relSeen[t.ID] {
				return
			}
			seen[t.ID] = true
			if t.Op == OVar && (t.Sort.K == SBV || t.Sort.K == SBool) {
				out = append(out, t)
			}
			for _, a := range t.Args {
				walk(a)
			}
		}
		walk(c)
	}
	return out
}

func (e *Exec) noteVars(t *Term) {
	if e.relSeen == nil {
		e.relSeen = map[int]bool{}
	}
	if e.relSeen[t.ID] {
		return
	}
	e.relSeen[t.ID] = true
	if t.Op == OVar && (t.Sort.K == SBV || t.Sort.K == SBool) {
		e.relVars = append(e.relVars, t)
	}
	for _, a := range t.Args {
		e.noteVars(a)
	}
}

// Concretize returns a concrete value for t, forking over all feasible values.
func (e *Exec) Concretize(t *Term, what string) uint64 {
	for n := 0; ; n++ {
		if t.IsConst() {
			return t.C
		}
		if n > 70000 {
			panic(boundExhausted{"concretisation of " + what + " exceeds 70000 values"})
		}
		var v uint64
		if e.pos < len(e.prefix) {
			v = e.prefix[e.pos].Val
		} else {
			got := false
			if e.model != nil {
				if mv, ok := EvalBV(t, e.model); ok {
					v, got = mv, true
				}
			}
			if !got {
				r, m := e.checkModel(t.eqSelf(e.B))
				if r != Sat || m == nil {
					if r == Unsat {
						panic(pathAbort{"infeasible at concretisation"})
					}
					panic(errorf("cannot concretise %s: solver %v", what, r))
				}
				e.model = m
				mv, ok := EvalBV(t, m)
				if !ok {
					panic(errorf("cannot evaluate %s under the model", what))
				}
				v = mv
			}
		}
		c := e.B.Eq(t, e.B.BVConst(v, t.Sort.W))
		if e.decideVal(c, v) {
			return v
		}
	}
}

func (e *Exec) decideVal(c *Term, v uint64) bool {
	if c.IsConst() {
		return c.C != 0
	}
	if e.pos < len(e.prefix) {
		d := e.prefix[e.pos]
		e.pos++
		e.trace = append(e.trace, d)
		if d.Taken {
			e.assume(c)
		} else {
			e.assume(e.B.Not(c))
		}
		return d.Taken
	}
	// c is feasible (v came from a model of the path condition); is the negation?
	rf := e.check(e.B.Not(c))
	if rf == Unsat {
		e.trace = append(e.trace, Decision{Taken: true, Forced: true, Val: v})
		e.assume(c)
		return true
	}
	if rf == Unknown {
		e.unknowns++
	}
	alt := make([]Decision, len(e.trace), len(e.trace)+1)
	copy(alt, e.trace)
	alt = append(alt, Decision{Taken: false, Val: v})
	e.forks = append(e.forks, alt)
	e.trace = append(e.trace, Decision{Taken: true, Val: v})
	e.assume(c)
	return true
}

// concreteInt returns the concrete signed value of an integer term, concretising if needed.
func (e *Exec) concreteInt(v Value, what string) int64 {
	t := v.(*Term)
	u := e.Concretize(t, what)
	return sext(u, t.Sort.W)
}

// ---------------- instruction interpretation ----------------

type continuation int

const (
	kNext continuation = iota
	kReturn
	kJump
)

func (e *Exec) tick(instr ssa.Instruction) {
	e.steps++
	e.lastInstr = instr
	if e.Cfg.MaxSteps > 0 && e.steps > int64(e.Cfg.MaxSteps) {
		panic(boundExhausted{fmt.Sprintf("path instruction budget %d", e.Cfg.MaxSteps)})
	}
	if e.steps&4095 == 0 && !e.deadline.IsZero() && time.Now().After(e.deadline) {
		panic(boundExhausted{"wall budget of the run (path abandoned)"})
	}
	if e.Cfg.StepBudget > 0 && e.steps > e.Cfg.StepBudget {
		panic(budgetViolation{"steps", fmt.Sprintf("executed %d SSA instructions, budget %d", e.steps, e.Cfg.StepBudget)})
	}
}

type budgetViolation struct{ kind, detail string }

func (e *Exec) visitInstr(fr *frame, instr ssa.Instruction) continuation {
	e.tick(instr)
	switch instr := instr.(type) {
	case *ssa.DebugRef:
	case *ssa.UnOp:
		fr.env[instr] = e.unop(fr, instr, fr.get(instr.X))
	case *ssa.BinOp:
		fr.env[instr] = e.binop(instr.Op, instr.X.Type(), fr.get(instr.X), fr.get(instr.Y), instr)
	case *ssa.Call:
		fn, args := e.prepareCall(fr, &instr.Call)
		fr.env[instr] = e.call(fr, instr.Pos(), fn, args)
	case *ssa.ChangeInterface:
		fr.env[instr] = fr.get(instr.X)
	case *ssa.ChangeType:
		fr.env[instr] = fr.get(instr.X)
	case *ssa.Convert:
		fr.env[instr] = e.conv(instr.Type(), instr.X.Type(), fr.get(instr.X))
	case *ssa.SliceToArrayPointer:
		x := fr.get(instr.X).(*SliceV)
		n := instr.Type().Underlying().(*types.Pointer).Elem().Underlying().(*types.Array).Len()
		if !e.Decide(e.B.BvCmp(OBvSle, e.mkInt(n), x.Len)) {
			panic(e.runtimePanic("cannot convert slice to array pointer: length too short"))
		}
		if x.Nil || n == 0 {
			if x.Nil {
				fr.env[instr] = (*Value)(nil)
			} else {
				var cell Value = ArrayV{}
				fr.env[instr] = &cell
			}
		} else {
			panic(errorf("SliceToArrayPointer of non-empty slice not supported"))
		}
	case *ssa.MakeInterface:
		fr.env[instr] = IfaceV{T: instr.X.Type(), V: fr.get(instr.X)}
	case *ssa.Extract:
		fr.env[instr] = fr.get(instr.Tuple).(TupleV)[instr.Index]
	case *ssa.Slice:
		fr.env[instr] = e.sliceOp(instr, fr.get(instr.X), fr.get(instr.Low), fr.get(instr.High), fr.get(instr.Max))
	case *ssa.Return:
		switch len(instr.Results) {
		case 0:
		case 1:
			fr.result = fr.get(instr.Results[0])
		default:
			res := make(TupleV, len(instr.Results))
			for i, r := range instr.Results {
				res[i] = fr.get(r)
			}
			fr.result = res
		}
		fr.block = nil
		return kReturn
	case *ssa.RunDefers:
		fr.runDefers()
	case *ssa.Panic:
		panic(targetPanic{fr.get(instr.X)})
	case *ssa.Store:
		if e.merging > 0 && !localRoot(instr.Addr) {
			panic(mergeAbort{"store to non-local"})
		}
		e.store(deref(instr.Addr.Type()), fr.get(instr.Addr), fr.get(instr.Val), instr)
	case *ssa.If:
		if e.tryChain(fr, instr) {
			return kJump
		}
		if ct := fr.get(instr.Cond).(*Term); !ct.IsConst() {
			if _, known := e.known[ct.ID]; !known && e.tryIfConvert(fr, instr, ct) {
				return kJump
			}
		}
		succ := 1
		if e.Decide(fr.get(instr.Cond).(*Term)) {
			succ = 0
		}
		fr.prevBlock, fr.block = fr.block, fr.block.Succs[succ]
		return kJump
	case *ssa.Jump:
		fr.prevBlock, fr.block = fr.block, fr.block.Succs[0]
		return kJump
	case *ssa.Defer:
		fn, args := e.prepareCall(fr, &instr.Call)
		if instr.DeferStack != nil {
			panic(errorf("defer with explicit defer stack not supported"))
		}
		fr.defers = append(fr.defers, &deferred{fn: fn, args: args, instr: instr})
	case *ssa.Go:
		if e.merging > 0 {
			panic(mergeAbort{"go"})
		}
		fn, args := e.prepareCall(fr, &instr.Call)
		// run the goroutine to completion, in spawn order
		e.nGo++
		saved := e.curGo
		e.curGo = e.nGo
		e.logSync("go", saved, e.curGo)
		e.call(nil, instr.Pos(), fn, args)
		e.logSync("end", e.curGo, saved)
		e.curGo = saved
	case *ssa.Alloc:
		t := deref(instr.Type())
		if instr.Heap {
			e.countAlloc(e.sizes.Sizeof(t), nil, instr)
			cell := e.zero(t)
			fr.env[instr] = &cell
		} else {
			addr := fr.env[instr].(*Value)
			*addr = e.zero(t)
		}
	case *ssa.MakeSlice:
		fr.env[instr] = e.makeSlice(instr, e.to64(fr.get(instr.Len).(*Term), instr.Len.Type()), e.to64(fr.get(instr.Cap).(*Term), instr.Cap.Type()))
	case *ssa.MakeMap:
		e.countAlloc(48, nil, instr)
		if instr.Reserve != nil {
			// a size hint pre-allocates buckets: about key+value+overhead per entry
			mt := instr.Type().Underlying().(*types.Map)
			per := e.sizes.Sizeof(mt.Key()) + e.sizes.Sizeof(mt.Elem()) + 8
			n := e.to64(fr.get(instr.Reserve).(*Term), instr.Reserve.Type())
			if n.IsConst() {
				if int64(n.C) > 0 {
					e.countAlloc(per*int64(n.C), nil, instr)
				}
			} else {
				e.countAlloc(per, n, instr)
			}
		}
		fr.env[instr] = &MapV{KeyT: instr.Type().Underlying().(*types.Map).Key()}
	case *ssa.MakeChan:
		panic(errorf("channels are not supported"))
	case *ssa.Range:
		fr.env[instr] = e.rangeIter(fr.get(instr.X))
	case *ssa.Next:
		fr.env[instr] = e.iterNext(fr.get(instr.Iter), instr)
	case *ssa.FieldAddr:
		p := fr.get(instr.X).(*Value)
		if p == nil {
			panic(e.runtimePanic("invalid memory address or nil pointer dereference"))
		}
		if po, ok := (*p).(Poison); ok {
			panic(errorf("field of uninitialised global %s", po.What))
		}
		fr.env[instr] = &(*p).(StructV)[instr.Field]
	case *ssa.Field:
		fr.env[instr] = copyVal(fr.get(instr.X).(StructV)[instr.Field])
	case *ssa.IndexAddr:
		fr.env[instr] = e.indexAddr(instr, fr.get(instr.X), fr.get(instr.Index).(*Term))
	case *ssa.Index:
		fr.env[instr] = e.index(instr, fr.get(instr.X), fr.get(instr.Index).(*Term))
	case *ssa.Lookup:
		fr.env[instr] = e.lookup(instr, fr.get(instr.X), fr.get(instr.Index))
	case *ssa.MapUpdate:
		if e.merging > 0 {
			panic(mergeAbort{"map update"})
		}
		m := fr.get(instr.Map).(*MapV)
		if m == nil {
			panic(targetPanic{IfaceV{T: e.runtimeErrorType(), V: e.mkString("assignment to entry in nil map")}})
		}
		e.mapUpdate(m, fr.get(instr.Key), copyVal(fr.get(instr.Value)))
	case *ssa.TypeAssert:
		fr.env[instr] = e.typeAssert(instr, fr.get(instr.X).(IfaceV))
	case *ssa.MakeClosure:
		var bindings []Value
		for _, b := range instr.Bindings {
			bindings = append(bindings, fr.get(b))
		}
		e.countAlloc(int64(8+8*len(bindings)), nil, instr)
		fr.env[instr] = &FuncV{Fn: instr.Fn.(*ssa.Function), Env: bindings}
	case *ssa.Phi:
		panic("phi reached")
	case *ssa.Select:
		panic(errorf("select is not supported"))
	case *ssa.Send:
		panic(errorf("channel send is not supported"))
	default:
		panic(errorf("unexpected instruction %T", instr))
	}
	return kNext
}

func (e *Exec) prepareCall(fr *frame, call *ssa.CallCommon) (fn Value, args []Value) {
	v := fr.get(call.Value)
	if call.Method == nil {
		fn = v
	} else {
		recv := v.(IfaceV)
		if recv.T == nil {
			panic(e.runtimePanic("invalid memory address or nil pointer dereference"))
		}
		f := e.Prog.LookupMethod(recv.T, call.Method.Pkg(), call.Method.Name())
		if f == nil {
			panic(errorf("method set of %v lacks %s", recv.T, call.Method))
		}
		fn = &FuncV{Fn: f}
		args = append(args, recv.V)
	}
	for _, a := range call.Args {
		args = append(args, fr.get(a))
	}
	return
}

func (e *Exec) call(caller *frame, pos token.Pos, fn Value, args []Value) Value {
	switch fn := fn.(type) {
	case *FuncV:
		if fn == nil {
			panic(e.runtimePanic("invalid memory address or nil pointer dereference"))
		}
		return e.callSSA(caller, pos, fn.Fn, args, fn.Env)
	case *ssa.Builtin:
		return e.callBuiltin(caller, pos, fn, args)
	}
	panic(errorf("cannot call %T", fn))
}

func (e *Exec) callSSA(caller *frame, pos token.Pos, fn *ssa.Function, args []Value, env []Value) Value {
	name := fn.String()
	e.calls[name]++
	fr := &frame{e: e, caller: caller, fn: fn}
	if caller != nil {
		fr.goID = caller.goID
	}
	if h, ok := e.hooks[name]; ok {
		if e.merging > 0 {
			panic(mergeAbort{"hooked call " + name})
		}
		return h(e, fr, args)
	}
	if fn.Parent() == nil && strings.HasPrefix(fn.Name(), "verif") && fn.Signature.Recv() == nil {
		if h, ok := apiHooks[fn.Name()]; ok {
			if e.merging > 0 {
				panic(mergeAbort{"harness api call"})
			}
			return h(e, fr, args)
		}
	}
	if fn.Synthetic == "package initializer" {
		if !e.Cfg.InitPkgs[fn.Pkg.Pkg.Path()] {
			return nil
		}
	}
	if fn.Blocks == nil {
		panic(errorf("no code for function %s", name))
	}
	if fn.TypeParams().Len() > 0 && len(fn.TypeArgs()) == 0 {
		panic(errorf("uninstantiated generic %s", name))
	}
	if e.mergeCandidate(fn) {
		if res, ok := e.callMerged(caller, fn, args, env); ok {
			return res
		}
	}
	return e.callSSAraw(caller, fn, args, env)
}

// callSSAraw interprets the body of fn.
func (e *Exec) callSSAraw(caller *frame, fn *ssa.Function, args []Value, env []Value) Value {
	fr := &frame{e: e, caller: caller, fn: fn}
	if caller != nil {
		fr.goID = caller.goID
	}
	e.depth++
	if e.depth > 400 {
		panic(boundExhausted{"call depth 400"})
	}
	e.callSites = append(e.callSites, e.lastInstr)
	defer func() { e.depth--; e.callSites = e.callSites[:len(e.callSites)-1] }()
	fr.env = make(map[ssa.Value]Value, 16)
	fr.block = fn.Blocks[0]
	fr.locals = make([]Value, len(fn.Locals))
	for i, l := range fn.Locals {
		fr.locals[i] = e.zero(deref(l.Type()))
		fr.env[l] = &fr.locals[i]
	}
	for i, p := range fn.Params {
		fr.env[p] = args[i]
	}
	for i, fv := range fn.FreeVars {
		fr.env[fv] = env[i]
	}
	for fr.block != nil {
		e.runFrame(fr)
	}
	return fr.result
}

func isControl(r interface{}) bool {
	switch r.(type) {
	case pathAbort, engineError, boundExhausted, pathStop, budgetViolation, mergeAbort:
		// (a mergeAbort escaping an if-conversion arm is caught by runArm)
		return true
	}
	return false
}

func (e *Exec) runFrame(fr *frame) {
	defer func() {
		if fr.block == nil {
			return
		}
		r := recover()
		if isControl(r) {
			panic(r)
		}
		if _, ok := r.(targetPanic); !ok {
			// Go runtime error inside the engine itself: report as engine error with context
			panic(engineError{fmt.Sprintf("internal error in %s: %v", fr.fn, r)})
		}
		fr.panicking = true
		fr.panicVal = r
		if e.Cfg.Trace || os.Getenv("VERIF_PANICS") != "" {
			fmt.Printf("  target panic in %s: %s\n", fr.fn, describe(r.(targetPanic).v))
		}
		fr.runDefers()
		fr.block = fr.fn.Recover
		if fr.block == nil {
			// recovered, no named results: return zero values
			fr.result = e.zero(fr.fn.Signature.Results())
			if fr.fn.Signature.Results().Len() == 0 {
				fr.result = nil
			}
		}
	}()
	for {
		// phis
		instrs := fr.block.Instrs
		n := 0
		for n < len(instrs) {
			if _, ok := instrs[n].(*ssa.Phi); !ok {
				break
			}
			n++
		}
		if fr.skipPhis {
			fr.skipPhis = false
		} else if n > 0 {
			pred := -1
			for i, p := range fr.block.Preds {
				if p == fr.prevBlock {
					pred = i
					break
				}
			}
			tmp := make([]Value, n)
			for i := 0; i < n; i++ {
				tmp[i] = fr.get(instrs[i].(*ssa.Phi).Edges[pred])
			}
			for i := 0; i < n; i++ {
				fr.env[instrs[i].(*ssa.Phi)] = tmp[i]
			}
		}
		for _, instr := range instrs[n:] {
			if e.Cfg.Trace {
				if v, ok := instr.(ssa.Value); ok {
					fmt.Printf("  [%s] %s = %s\n", fr.fn.Name(), v.Name(), instr)
				} else {
					fmt.Printf("  [%s] %s\n", fr.fn.Name(), instr)
				}
			}
			if e.visitInstr(fr, instr) == kReturn {
				return
			}
		}
	}
}

func (fr *frame) runDefer(d *deferred) {
	ok := false
	defer func() {
		if !ok {
			r := recover()
			if isControl(r) {
				panic(r)
			}
			if _, tp := r.(targetPanic); !tp {
				panic(engineError{fmt.Sprintf("internal error in deferred call: %v", r)})
			}
			fr.panicking = true
			fr.panicVal = r
		}
	}()
	fr.e.call(fr, d.instr.Pos(), d.fn, d.args)
	ok = true
}

func (fr *frame) runDefers() {
	for len(fr.defers) > 0 {
		d := fr.defers[len(fr.defers)-1]
		fr.defers = fr.defers[:len(fr.defers)-1]
		fr.runDefer(d)
	}
	if fr.panicking {
		panic(fr.panicVal)
	}
}

func (e *Exec) doRecover(caller *frame) Value {
	if caller != nil && !caller.panicking && caller.caller != nil && caller.caller.panicking {
		caller.caller.panicking = false
		p := caller.caller.panicVal
		caller.caller.panicVal = nil
		if tp, ok := p.(targetPanic); ok {
			return tp.v
		}
		panic(errorf("unexpected panic payload %T in recover", p))
	}
	return IfaceV{}
}

// ---------------- slices, arrays, indexing ----------------

func (e *Exec) elemSize(t types.Type) int64 {
	return e.sizes.Sizeof(t)
}

// countAlloc accounts for an allocation of size bytes (concrete) or
// n*elem bytes (symbolic n).
func (e *Exec) countAlloc(size int64, sym *Term, instr ssa.Instruction) {
	if sym == nil {
		e.allocated += size
		if e.Cfg.AllocBudget > 0 && e.allocated > e.Cfg.AllocBudget {
			panic(budgetViolation{"alloc", fmt.Sprintf("allocated %d bytes, budget %d, at %s", e.allocated, e.Cfg.AllocBudget, e.posOf(instr))})
		}
		return
	}
	// symbolic count of elements of the given size
	if e.Cfg.AllocBudget > 0 {
		remaining := e.Cfg.AllocBudget - e.allocated
		if remaining < 0 {
			remaining = 0
		}
		limit := uint64(remaining / size)
		over := e.B.BvCmp(OBvUlt, e.B.BVConst(limit, 64), sym)
		r := e.check(over)
		if r == Sat {
			// record the violation with a model and continue on the in-budget side
			e.recordViolation("alloc", "alloc budget at "+e.posOf(instr), fmt.Sprintf("allocation of more than %d bytes is feasible (budget %d)", remaining, e.Cfg.AllocBudget), over)
			e.assume(e.B.Not(over))
		} else if r == Unknown {
			e.unknowns++
		}
	}
}

func (e *Exec) posOf(instr ssa.Instruction) string {
	if instr == nil {
		return "?"
	}
	p := e.Prog.Fset.Position(instr.Pos())
	fn := ""
	if instr.Parent() != nil {
		fn = instr.Parent().String()
	}
	return fmt.Sprintf("%s (%s:%d)", fn, shortFile(p.Filename), p.Line)
}

func shortFile(f string) string {
	if strings.HasPrefix(f, RepoDir+"/") {
		return f[len(RepoDir)+1:]
	}
	if i := strings.Index(f, "/src/"); i >= 0 {
		return f[i+5:]
	}
	return f
}

const materializeCap = 4200

func (e *Exec) makeSlice(instr *ssa.MakeSlice, ln, cp *Term) *SliceV {
	et := instr.Type().Underlying().(*types.Slice).Elem()
	esz := e.elemSize(et)
	if esz == 0 {
		esz = 1
	}
	// negative or len>cap panics
	if !ln.IsConst() || !cp.IsConst() {
		if e.Decide(e.B.BvCmp(OBvSlt, ln, e.mkInt(0))) {
			panic(e.runtimePanic("makeslice: len out of range"))
		}
		if ln != cp {
			if e.Decide(e.B.BvCmp(OBvSlt, cp, ln)) {
				panic(e.runtimePanic("makeslice: cap out of range"))
			}
		}
		e.countAlloc(esz, cp, instr)
		// small feasible range? materialise up to materializeCap cells
		m := materializeCap
		cells := make([]Value, m)
		z := e.zero(et)
		_, scalar := z.(*Term)
		for i := range cells {
			if scalar {
				cells[i] = z
			} else {
				cells[i] = e.zero(et)
			}
		}
		e.notes = append(e.notes, "symbolic-length make at "+e.posOf(instr))
		return &SliceV{A: cells, Len: ln, Cap: cp}
	}
	l, c := sext(ln.C, 64), sext(cp.C, 64)
	if l < 0 || l > c {
		panic(e.runtimePanic("makeslice: len out of range"))
	}
	if c > 1<<26 {
		// would be a huge concrete allocation
		e.countAlloc(c*esz, nil, instr)
		panic(boundExhausted{fmt.Sprintf("concrete allocation of %d elements", c)})
	}
	e.countAlloc(c*esz, nil, instr)
	cells := make([]Value, c)
	z := e.zero(et)
	_, scalar := z.(*Term)
	for i := range cells {
		if scalar {
			cells[i] = z
		} else {
			cells[i] = e.zero(et)
		}
	}
	return &SliceV{A: cells[:c], Len: ln, Cap: cp}
}

// boundsCheck panics (in the program under test) unless 0 <= idx < n.
func (e *Exec) boundsCheck(idx, n *Term, what string) {
	ok := e.B.BvCmp(OBvUlt, idx, n)
	if !e.Decide(ok) {
		panic(e.runtimePanic("index out of range" + what))
	}
}

const symIndexMax = 96

func (e *Exec) elemPtr(cells []Value, idx *Term, n *Term, instr ssa.Instruction) Value {
	e.boundsCheck(idx, n, "")
	if idx.IsConst() {
		i := int(idx.C)
		if i >= len(cells) {
			panic(boundExhausted{fmt.Sprintf("index %d beyond materialised cells (%d) at %s", i, len(cells), e.posOf(instr))})
		}
		return &cells[i]
	}
	// symbolic index
	scalar := len(cells) > 0
	if scalar {
		_, scalar = cells[0].(*Term)
	}
	if scalar && n.IsConst() && int(n.C) <= symIndexMax && int(n.C) <= len(cells) {
		return &SymPtr{A: cells[:n.C], Idx: idx}
	}
	if scalar && e.Cfg.UFTables && n.IsConst() && int(n.C) <= len(cells) && int(n.C) >= 256 {
		return &UFPtr{Tbl: e.ufTableFor(cells[:n.C]), Idx: idx}
	}
	i := int(e.Concretize(idx, "array index at "+e.posOf(instr)))
	if i >= len(cells) {
		panic(boundExhausted{fmt.Sprintf("index %d beyond materialised cells (%d) at %s", i, len(cells), e.posOf(instr))})
	}
	return &cells[i]
}

func (e *Exec) to64(idx *Term, t types.Type) *Term {
	w, signed := e.intWidth(t)
	_ = w
	return e.B.Resize(idx, 64, signed)
}

func (e *Exec) indexAddr(instr *ssa.IndexAddr, x Value, idx *Term) Value {
	idx = e.to64(idx, instr.Index.Type())
	switch x := x.(type) {
	case *SliceV:
		return e.elemPtr(x.A, idx, x.Len, instr)
	case *Value:
		if x == nil {
			panic(e.runtimePanic("invalid memory address or nil pointer dereference"))
		}
		if po, ok := (*x).(Poison); ok {
			panic(errorf("index of uninitialised global %s", po.What))
		}
		arr := (*x).(ArrayV)
		return e.elemPtr(arr, idx, e.mkInt(int64(len(arr))), instr)
	}
	panic(errorf("IndexAddr on %T", x))
}

func (e *Exec) index(instr *ssa.Index, x Value, idx *Term) Value {
	idx = e.to64(idx, instr.Index.Type())
	switch x := x.(type) {
	case ArrayV:
		p := e.elemPtr(x, idx, e.mkInt(int64(len(x))), instr)
		return e.load(nil, p, nil)
	case StringV:
		n := e.mkInt(int64(len(x.B)))
		e.boundsCheck(idx, n, "")
		if idx.IsConst() {
			return x.B[idx.C]
		}
		var res *Term
		for i := len(x.B) - 1; i >= 0; i-- {
			if res == nil {
				res = x.B[i]
			} else {
				res = e.B.Ite(e.B.Eq(idx, e.mkInt(int64(i))), x.B[i], res)
			}
		}
		return res
	}
	panic(errorf("Index on %T", x))
}

func (e *Exec) sliceOp(instr *ssa.Slice, x Value, lo, hi, max Value) Value {
	var cells []Value
	var ln, cp *Term
	isNil := false
	switch x := x.(type) {
	case StringV:
		l := int64(0)
		h := int64(len(x.B))
		if lo != nil {
			l = e.concreteInt(e.to64(lo.(*Term), instr.Low.Type()), "string slice low")
		}
		if hi != nil {
			h = e.concreteInt(e.to64(hi.(*Term), instr.High.Type()), "string slice high")
		}
		if l < 0 || l > h || h > int64(len(x.B)) {
			panic(e.runtimePanic("slice bounds out of range"))
		}
		return StringV{B: x.B[l:h]}
	case *SliceV:
		cells, ln, cp, isNil = x.A, x.Len, x.Cap, x.Nil
	case *Value:
		if x == nil {
			panic(e.runtimePanic("invalid memory address or nil pointer dereference"))
		}
		arr := (*x).(ArrayV)
		cells = arr
		ln = e.mkInt(int64(len(arr)))
		cp = ln
	default:
		panic(errorf("Slice of %T", x))
	}
	loT := e.mkInt(0)
	if lo != nil {
		loT = e.to64(lo.(*Term), instr.Low.Type())
	}
	hiT := ln
	if hi != nil {
		hiT = e.to64(hi.(*Term), instr.High.Type())
	}
	maxT := cp
	if max != nil {
		maxT = e.to64(max.(*Term), instr.Max.Type())
	}
	// 0 <= lo <= hi <= max <= cap
	okc := e.B.AndN(e.B.BvCmp(OBvUle, loT, hiT), e.B.BvCmp(OBvUle, hiT, maxT), e.B.BvCmp(OBvUle, maxT, cp))
	if !e.Decide(okc) {
		panic(e.runtimePanic("slice bounds out of range"))
	}
	l := int(e.Concretize(loT, "slice low bound at "+e.posOf(instr)))
	if l > len(cells) {
		panic(boundExhausted{"slice low bound beyond materialised cells"})
	}
	res := &SliceV{A: cells[l:], Len: e.B.BvBin(OBvSub, hiT, loT), Cap: e.B.BvBin(OBvSub, maxT, loT)}
	if isNil {
		res.Nil = true
	}
	if res.Cap.IsConst() && int(res.Cap.C) < len(res.A) {
		res.A = res.A[:res.Cap.C]
	}
	return res
}

// ---------------- maps ----------------

func (e *Exec) mapFind(m *MapV, key Value) int {
	for i := range m.Keys {
		if !m.Alive[i] {
			continue
		}
		if e.Decide(e.equals(m.KeyT, m.Keys[i], key)) {
			return i
		}
	}
	return -1
}

func (e *Exec) mapUpdate(m *MapV, key, val Value) {
	if i := e.mapFind(m, key); i >= 0 {
		m.Vals[i] = val
		return
	}
	e.countAlloc(32, nil, nil)
	m.Keys = append(m.Keys, copyVal(key))
	m.Vals = append(m.Vals, val)
	m.Alive = append(m.Alive, true)
}

func (e *Exec) lookup(instr *ssa.Lookup, x Value, key Value) Value {
	switch x := x.(type) {
	case *MapV:
		vt := instr.X.Type().Underlying().(*types.Map).Elem()
		var v Value
		found := false
		if x != nil {
			if i := e.mapFind(x, key); i >= 0 {
				v = copyVal(x.Vals[i])
				found = true
			}
		}
		if !found {
			v = e.zero(vt)
		}
		if instr.CommaOk {
			return TupleV{v, e.B.Bool(found)}
		}
		return v
	case StringV:
		idx := e.to64(key.(*Term), instr.Index.Type())
		e.boundsCheck(idx, e.mkInt(int64(len(x.B))), "")
		i := e.Concretize(idx, "string index")
		return x.B[i]
	}
	panic(errorf("Lookup on %T", x))
}

func (e *Exec) rangeIter(x Value) Value {
	switch x := x.(type) {
	case *MapV:
		it := &MapIter{M: x}
		if x != nil {
			for i := range x.Keys {
				if x.Alive[i] {
					it.Keys = append(it.Keys, x.Keys[i])
					it.Vals = append(it.Vals, x.Vals[i])
				}
			}
			if e.Cfg.MapOrderRev {
				for i, j := 0, len(it.Keys)-1; i < j; i, j = i+1, j-1 {
					it.Keys[i], it.Keys[j] = it.Keys[j], it.Keys[i]
					it.Vals[i], it.Vals[j] = it.Vals[j], it.Vals[i]
				}
			}
		}
		return it
	case StringV:
		return &StrIter{S: x}
	}
	panic(errorf("range over %T", x))
}

func (e *Exec) iterNext(it Value, instr *ssa.Next) Value {
	switch it := it.(type) {
	case *MapIter:
		if it.I >= len(it.Keys) {
			tt := instr.Type().(*types.Tuple)
			return TupleV{e.B.Bool(false), e.zeroOrNil(tt.At(1).Type()), e.zeroOrNil(tt.At(2).Type())}
		}
		k, v := it.Keys[it.I], it.Vals[it.I]
		it.I++
		return TupleV{e.B.Bool(true), copyVal(k), copyVal(v)}
	case *StrIter:
		if it.I >= len(it.S.B) {
			return TupleV{e.B.Bool(false), e.mkInt(0), e.B.BVConst(0, 32)}
		}
		s, ok := e.concreteString(it.S)
		if !ok {
			panic(errorf("range over symbolic string"))
		}
		for i, r := range s[it.I:] {
			_ = i
			idx := it.I
			it.I += len(string(r))
			if r == 0xFFFD {
				// width of an invalid encoding is 1
				if !strings.HasPrefix(s[idx:], "\xef\xbf\xbd") {
					it.I = idx + 1
				}
			}
			return TupleV{e.B.Bool(true), e.mkInt(int64(idx)), e.B.BVConst(uint64(r), 32)}
		}
	}
	panic(errorf("next on %T", it))
}

func (e *Exec) zeroOrNil(t types.Type) Value {
	if b, ok := t.(*types.Basic); ok && b.Kind() == types.Invalid {
		return nil
	}
	return e.zero(t)
}

// ---------------- type assertions ----------------

func (e *Exec) typeAssert(instr *ssa.TypeAssert, itf IfaceV) Value {
	var v Value
	ok := false
	if idst, isItf := instr.AssertedType.Underlying().(*types.Interface); isItf {
		if itf.T != nil && types.Implements(itf.T, idst) {
			v = itf
			ok = true
		} else if itf.T != nil && idst.NumMethods() == 0 {
			v, ok = itf, true
		}
	} else if itf.T != nil && types.Identical(itf.T, instr.AssertedType) {
		v = copyVal(itf.V)
		ok = true
	}
	if !ok {
		if !instr.CommaOk {
			panic(targetPanic{IfaceV{T: e.runtimeErrorType(), V: e.mkString(fmt.Sprintf("interface conversion: interface is %v, not %v", itf.T, instr.AssertedType))}})
		}
		return TupleV{e.zero(instr.AssertedType), e.B.Bool(false)}
	}
	if instr.CommaOk {
		return TupleV{v, e.B.Bool(true)}
	}
	return v
}

// ---------------- access log (C11) ----------------

type SyncEvent struct {
	Kind string
	A, B int
	Seq  int
	Obj  *Value
}

func (e *Exec) logAccess(p *Value, write bool, instr ssa.Instruction) {
	if !e.logging {
		return
	}
	// locals of the current frames are thread-private: only heap cells, globals and
	// cells reachable from them matter; keep at most a few events per instruction
	// the quota is per instruction *and calling context* (three innermost call sites): a
	// shared helper (bufio's copy, ReadFull) reached from a new place gets a fresh quota
	var ctx [3]ssa.Instruction
	for i := 0; i < 3 && i < len(e.callSites); i++ {
		ctx[i] = e.callSites[len(e.callSites)-1-i]
	}
	key := accessKey{instr, write, e.curGo, ctx}
	if e.logCount == nil {
		e.logCount = map[accessKey]int{}
	}
	e.logCount[key]++
	if e.logCount[key] > 6 {
		return
	}
	e.accessLog = append(e.accessLog, Access{Seg: e.logSeg, Loc: p, Write: write, Go: e.curGo, Instr: instr, Seq: len(e.accessLog)})
}

type accessKey struct {
	instr ssa.Instruction
	write bool
	g     int
	ctx   [3]ssa.Instruction
}

func (e *Exec) logSync(kind string, a, b int) {
	if !e.logging {
		return
	}
	e.accessLog = append(e.accessLog, Access{Seg: e.logSeg, Go: a, Other: b, Seq: len(e.accessLog), Sync: kind})
}

// AccessLog returns the recorded accesses (C11).
func (e *Exec) AccessLog() []Access { return e.accessLog }

// PosOf renders the position of an instruction.
func (e *Exec) PosOf(instr ssa.Instruction) string { return e.posOf(instr) }

// helpers for float rounding in real modes are in float.go
var _ = math.Abs
var _ = big.NewRat
