package sym

import (
	"fmt"
	"math"
)

// Large immutable look-up tables indexed by a symbolic value are abstracted as
// uninterpreted functions; ground facts tbl(i) = T[i] are added lazily for the
// indices a model uses (counterexample-guided refinement), so that a `sat`
// answer is only accepted when it is consistent with the real table contents
// at every index it touches (DESIGN 2.6).

type UFPtr struct {
	Tbl *ufTable
	Idx *Term
}

type ufTable struct {
	name  string
	hash  uint64
	cells []Value
	sort  Sort
	apps  map[int]*Term // idx term ID -> idx term
	facts map[uint64]bool
}

func (e *Exec) ufTableFor(cells []Value) *ufTable {
	key := &cells[0]
	if e.ufTables == nil {
		e.ufTables = map[*Value][]*ufTable{}
	}
	// The name must not depend on the order in which a path happens to touch the tables
	// (all paths of a worker share one solver process and its global declarations): it is
	// derived from the element sort, the length and the contents. The contents are hashed
	// at every load: a table that was written after an earlier load (e.g. two packages
	// whose tables share a backing array) is a different function from then on, with its
	// own snapshot of the cells, so "immutable after initialisation" is checked, not assumed.
	h := uint64(14695981039346656037)
	for _, c := range cells {
		v := uint64(0)
		if ct, ok := c.(*Term); ok {
			v = ct.C
			if ct.Sort.K == SFP {
				v = math.Float64bits(ct.F)
			}
		}
		for i := 0; i < 8; i++ {
			h ^= (v >> (8 * uint(i))) & 0xff
			h *= 1099511628211
		}
	}
	for _, t := range e.ufTables[key] {
		if t.hash == h && len(t.cells) == len(cells) {
			return t
		}
	}
	srt := cells[0].(*Term).Sort
	t := &ufTable{name: fmt.Sprintf("tbl!%d!%d!%d!%x", srt.K, srt.W, len(cells), h), hash: h, cells: append([]Value(nil), cells...), sort: srt, apps: map[int]*Term{}, facts: map[uint64]bool{}}
	e.ufTables[key] = append(e.ufTables[key], t)
	e.ufOrder = append(e.ufOrder, t)
	return t
}

func (e *Exec) ufLoad(p *UFPtr) *Term {
	p.Tbl.apps[p.Idx.ID] = p.Idx
	e.noteAssumption("table loads at symbolic indices are uninterpreted functions refined with ground facts for every index a model touches (tables are immutable after initialisation)")
	return e.B.App(p.Tbl.name, p.Tbl.sort, p.Idx)
}

// refine adds table facts for the index values of the current model; it reports
// whether any new fact was added.
func (e *Exec) ufRefine(lits []*Term) (bool, bool) {
	var idxTerms []*Term
	var owners []*ufTable
	for _, t := range e.ufOrder {
		for _, it := range t.apps {
			idxTerms = append(idxTerms, it)
			owners = append(owners, t)
		}
	}
	if len(idxTerms) == 0 {
		return false, true
	}
	r, vals := e.S.CheckModel(idxTerms, lits...)
	if r != Sat {
		return false, false
	}
	added := false
	for i, v := range vals {
		if !v.Valid {
			return false, false
		}
		t := owners[i]
		if v.Bits >= uint64(len(t.cells)) || t.facts[v.Bits] {
			continue
		}
		t.facts[v.Bits] = true
		val := t.cells[v.Bits].(*Term)
		app := e.B.App(t.name, t.sort, e.B.BVConst(v.Bits, 64))
		e.ufFacts = append(e.ufFacts, e.B.Eq(app, val))
		added = true
	}
	return added, true
}
