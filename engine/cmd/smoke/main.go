package main

import (
	"fmt"
	"os"
	"runtime/pprof"
	"strconv"
	"strings"

	"gosym/sym"
)

func main() {
	if pf := os.Getenv("CPUPROF"); pf != "" {
		f, _ := os.Create(pf)
		pprof.StartCPUProfile(f)
		defer pprof.StopCPUProfile()
	}
	p, err := sym.LoadProgram("/verif/harness")
	if err != nil {
		fmt.Println(err)
		os.Exit(2)
	}
	fmt.Println("loaded in", p.LoadTime)
	h := &sym.Harness{Pkg: os.Args[1], Func: os.Args[2]}
	if mp := os.Getenv("MAXPATHS"); mp != "" {
		v, _ := strconv.Atoi(mp)
		h.MaxPaths = v
	}
	h.Verbose = os.Getenv("V") != ""
	h.Solver = os.Getenv("SOLVER")
	switch os.Getenv("FLOAT") {
	case "real":
		h.Cfg.Float = sym.FloatReal
	case "rerr":
		h.Cfg.Float = sym.FloatRErr
	}
	h.Cfg.UFTables = os.Getenv("UF") != ""
	h.Cfg.MonotoneRounding = os.Getenv("MONO") != ""
	h.Cfg.IntInputsAsReal = os.Getenv("INTREAL") != ""
	h.Cfg.MergeFuncs = map[string]bool{}
	for _, f := range strings.Split(os.Getenv("MERGE"), ",") {
		if f != "" {
			h.Cfg.MergeFuncs[f] = true
		}
	}
	h.Cfg.OneShotAsserts = os.Getenv("ONESHOT") != ""
	h.Cfg.OneShotAll = os.Getenv("ONESHOT") == "all"
	h.Cfg.PortfolioFallback = os.Getenv("FALLBACK") != ""
	if t := os.Getenv("TIMEOUT"); t != "" {
		v, _ := strconv.Atoi(t)
		h.TimeoutMs = v * 1000
	}
	for _, a := range os.Args[3:] {
		if a == "trace" {
			h.Cfg.Trace = true
		} else if i := strings.Index(a, "="); i > 0 {
			v, _ := strconv.ParseInt(a[i+1:], 10, 64)
			if h.SetGlobals == nil {
				h.SetGlobals = map[string]int64{}
			}
			h.SetGlobals[a[:i]] = v
		}
	}
	rep := p.Explore(h)
	fmt.Printf("paths=%d completed=%d aborted=%d stopped=%d queries=%d (sat %d unsat %d unknown %d) solver=%v wall=%v steps=%d asserts=%d trivial=%d\n",
		rep.Paths, rep.Completed, rep.Aborted, rep.Stopped, rep.Queries, rep.Sat, rep.Unsat, rep.Unknown, rep.SolverTime, rep.Wall, rep.Steps, rep.Asserts, rep.TrivialAsserts)
	for _, v := range rep.Violations {
		fmt.Printf("VIOLATION [%s] %s %s\n", v.Kind, v.Label, v.Detail)
		if os.Getenv("SHOWMODEL") != "" {
			for _, in := range v.Inputs {
				fmt.Printf("    %s(%s)=%d %s\n", in.Name, in.Tag, in.Val.Bits, in.Val.Raw)
			}
		}
	}
	for _, e := range rep.EngineErrors {
		fmt.Println("ENGINE:", e)
	}
	for _, e := range rep.BoundsHit {
		fmt.Println("BOUND:", e)
	}
	for _, e := range rep.Inconclusive {
		fmt.Println("INCONCLUSIVE:", e)
	}
	for _, e := range rep.SolverErrors {
		fmt.Println("SOLVER:", e)
	}
	fmt.Println("modeltime:", rep.ModelTime)
	fmt.Println("reaches:", rep.Reaches)
	fmt.Println("assumptions:", rep.Assumptions)
}
