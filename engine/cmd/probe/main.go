package main

import (
	"fmt"
	"os"
	"time"

	"golang.org/x/tools/go/packages"
	"golang.org/x/tools/go/ssa"
	"golang.org/x/tools/go/ssa/ssautil"
)

func main() {
	t0 := time.Now()
	cfg := &packages.Config{Mode: packages.LoadAllSyntax, Dir: "/repo", Env: append(os.Environ(), "GOFLAGS=-mod=mod", "GOPROXY=off"),
		Overlay: map[string][]byte{
			"/repo/meta/webpmeta/zz_h.go": []byte("package webpmeta\nfunc ZZ() int { return 1 }\n"),
			"/repo/zzverif/c19/h.go":      []byte("package c19\nimport \"github.com/mandykoh/prism/meta/autometa\"\nvar X = autometa.Load\n"),
		}}
	pkgs, err := packages.Load(cfg, "./...", "./zzverif/c19")
	if err != nil {
		panic(err)
	}
	fmt.Println("loaded", len(pkgs), time.Since(t0))
	for _, p := range pkgs {
		for _, e := range p.Errors {
			fmt.Println("ERR", p.PkgPath, e)
		}
	}
	prog, spkgs := ssautil.AllPackages(pkgs, ssa.InstantiateGenerics|ssa.SanityCheckFunctions)
	_ = spkgs
	t1 := time.Now()
	prog.Build()
	fmt.Println("built all", time.Since(t1), len(prog.AllPackages()))
	for _, p := range spkgs {
		if p != nil {
			fmt.Println(p.Pkg.Path())
		}
	}
}
