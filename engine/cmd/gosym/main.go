package main

import (
	"flag"
	"fmt"
	"os"
	"strconv"

	"gosym/checks"
)

func main() {
	if len(os.Args) < 3 || os.Args[1] != "check" {
		fmt.Println("usage: gosym check <property> [--tier quick|thorough]")
		os.Exit(2)
	}
	id := os.Args[2]
	fs := flag.NewFlagSet("check", flag.ExitOnError)
	tier := fs.String("tier", os.Getenv("VERIF_TIER"), "quick|thorough")
	replay := fs.String("replay", "", "replay file")
	fs.Parse(os.Args[3:])
	if *tier == "" {
		*tier = "quick"
	}
	var seed int64 = 1
	if s := os.Getenv("VERIF_SEED"); s != "" {
		if v, err := strconv.ParseInt(s, 10, 64); err == nil {
			seed = v
		}
	}
	if *replay != "" {
		os.Exit(checks.ReplayOne(id, *replay))
	}
	os.Exit(checks.RunProperty(id, *tier, seed))
}
