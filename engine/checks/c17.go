package checks

import "gosym/sym"

func init() {
	Register(&Spec{
		ID:    "C17",
		Level: "model_checking", CrossSolver: true,
		Explanation: "bounded symbolic execution of ProfileReader.ReadProfile and Profile.Description: (1) tag tables with k symbolic distinct signatures whose offsets and sizes range over every placement inside a data area of d symbolic bytes (overlapping, shared, gaps, any order; k=0 included) - every stored entry is asserted equal to in[offset:offset+size]; (2) a v2 textDescription reached through a complete profile with padding; (3) multiLocalizedUnicode with r records, symbolic language/country/code units and every placement of the strings in the string area - the description must be the decoding of the bytes at an 'en' record's declared offset when one exists, else at some record's declared offset",
		Bounds: func(tier string) map[string]interface{} {
			return map[string]interface{}{"tags": "k<=2, d=8 (thorough k<=3)", "textDescription": "ASCII count 1..4, padding 0..3", "mluc": "r<=2 records, 6 bytes of string storage, strings of 1-2 code units, r<=2 with ASCII units and r=1 with any unit incl. surrogates (thorough: r<=2 with any unit) with r=1", "map_order": "Go map iteration order is modelled as insertion order; a second run uses reverse order", "outside": "2000-character strings, 40 records, 64 tags, empty strings"}
		},
		Runs: func(tier string, seed int64) []*Run {
			tags := int64(2)
			runs := []*Run{
				{H: sym.Harness{Pkg: "meta/icc", Func: "VerifHarness_C17_NegControl"}, NegControl: true},
				{H: sym.Harness{Pkg: "meta/icc", Func: "VerifHarness_C17_DescViaProfile"}, ExpectReach: []string{"desc-read"}, SamplePaths: 3},
				{H: sym.Harness{Pkg: "meta/icc", Func: "VerifHarness_C17_Mluc", Workers: 14}, ExpectReach: []string{"mluc-read"}, SamplePaths: 4},
				{H: sym.Harness{Pkg: "meta/icc", Func: "VerifHarness_C17_Mluc", Workers: 14, Cfg: sym.Config{MapOrderRev: true}}, ExpectReach: []string{"mluc-read"}},
			}
			runs = append(runs, &Run{H: sym.Harness{Pkg: "meta/icc", Func: "VerifHarness_C17_Mluc", Workers: 14, SetGlobals: map[string]int64{"verifC17Unicode": 1, "verifC17Records": 1}}, ExpectReach: []string{"mluc-read"}, SamplePaths: 4})
			if tier == "thorough" {
				tags = 3
				runs = append(runs, &Run{H: sym.Harness{Pkg: "meta/icc", Func: "VerifHarness_C17_Mluc", Workers: 14, SetGlobals: map[string]int64{"verifC17Unicode": 1, "verifC17Records": 2}}, ExpectReach: []string{"mluc-read"}, SamplePaths: 4})
			}
			runs = append(runs, &Run{H: sym.Harness{Pkg: "meta/icc", Func: "VerifHarness_C17_TagTable", Workers: 14, MaxPaths: 400000, SetGlobals: map[string]int64{"verifC17Tags": tags}}, ExpectReach: []string{"tagtable-read"}, SamplePaths: 4})
			return runs
		},
	})
}
