package checks

import "gosym/sym"

func init() {
	Register(&Spec{
		ID:    "C19",
		Level: "model_checking", CrossSolver: true,
		Explanation: "differential bounded symbolic execution: on the same symbolic input the three format loaders and autometa.Load are executed in one path; auto's result is asserted equal (format, dimensions, depth, ICC bytes, ICC error-ness) to that of the first specific loader that succeeded, an error without metadata when none did, and its stream must replay the input. Inputs: arbitrary symbolic bytes of every length up to N, skeleton files of all three formats (with and without ICC) including every truncation, and polyglots (one format's signature followed by another format's body)",
		Bounds: func(tier string) map[string]interface{} {
			return map[string]interface{}{"arbitrary_bytes": "every length 0..16 (thorough: 0..18), all byte values", "skeletons": "PNG (k<=1), PNG+iCCP, JPEG (k<=1), JPEG + 2 ICC chunks (seq,total <= 3), JPEG with a second, possibly too short frame header, WebP VP8/VP8L/VP8X(+ICCP), each complete and at every truncation length", "polyglots": "3 signatures x 3 bodies", "large": "signature + 4090/5000/9000 (thorough: + 70000) bytes of ancillary data (PNG tEXt chunk with or without IHDR, JPEG COM segments with or without a frame header, WebP VP8X + JUNK chunk, no signature), whole and cut at 4097 bytes: inputs longer than every internal buffer", "outside": "inputs beyond these shapes; zlib stubbed (deterministic in its input)"}
		},
		Runs: func(tier string, seed int64) []*Run {
			sizes := int64(3)
			if tier == "thorough" {
				sizes = 4
			}
			return []*Run{
				{H: sym.Harness{Pkg: "meta/autometa", Func: "VerifHarness_C19_Large", Workers: 14, SetGlobals: map[string]int64{"verifC19Sizes": sizes}}, ExpectReach: []string{"png-wins", "jpeg-wins", "webp-wins", "none"}, SamplePaths: 3},
				{H: sym.Harness{Pkg: "meta/autometa", Func: "VerifHarness_C19_Arbitrary", Workers: 14, MaxPaths: 200000, SetGlobals: map[string]int64{"verifC19N": map[bool]int64{false: 16, true: 18}[tier == "thorough"]}}, ExpectReach: []string{"none", "jpeg-wins"}, SamplePaths: 3},
				{H: sym.Harness{Pkg: "meta/autometa", Func: "VerifHarness_C19_Skeleton", Workers: 14}, ExpectReach: []string{"png-wins", "jpeg-wins", "webp-wins", "none"}, SamplePaths: 6},
				{H: sym.Harness{Pkg: "meta/autometa", Func: "VerifHarness_C19_Polyglot"}, ExpectReach: []string{"none"}, SamplePaths: 3},
				{H: sym.Harness{Pkg: "meta/autometa", Func: "VerifHarness_C19_NegControl"}, NegControl: true},
			}
		},
	})
	Register(&Spec{
		ID:    "C18",
		Level: "model_checking", CrossSolver: true,
		Explanation: "bounded symbolic execution of the loaders on well-formed skeleton files (symbolic header fields) followed by P concrete zero bytes of pixel data, read through a counting source: the number of bytes delivered is asserted <= (offset of the last needed structure, computed from the container layout) + 65536 on every path, and a second load of the file truncated at that offset must give identical metadata",
		Bounds: func(tier string) map[string]interface{} {
			return map[string]interface{}{"payload_sizes": "{0, 4096, 70000, 300000} quick; adds {1} thorough", "families": "PNG, PNG+iCCP, JPEG, JPEG+ICC (SOF first / last), WebP VP8/VP8L/VP8X(+ICCP), WebP and PNG with a 140000-byte embedded profile, each through its own loader and through autometa", "delivery": "unlimited and 1000-byte reads", "outside": "payloads above 300000 bytes (64 MiB): the bound is on what the loader requests, established by the counting source"}
		},
		Runs: func(tier string, seed int64) []*Run {
			p := int64(4)
			if tier == "thorough" {
				p = 5
			}
			return []*Run{
				{H: sym.Harness{Pkg: "meta/autometa", Func: "VerifHarness_C18", SetGlobals: map[string]int64{"verifC18Payloads": p}, Workers: 14}, ExpectReach: []string{"loaded"}, SamplePaths: 4},
				{H: sym.Harness{Pkg: "meta/autometa", Func: "VerifHarness_C18_NegControl"}, NegControl: true},
			}
		},
	})
}
