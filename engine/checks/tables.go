package checks

import (
	"fmt"
	"math"
	"math/big"
	"os/exec"
	"sort"
	"strings"
	"sync"
	"time"

	"gosym/sym"
)

// Ground table obligations (DESIGN 2.6, C01 (b), C02 (T)): the look-up tables are
// built by the symbolic executor running prism's own table construction code
// concretely from the current SSA; every entry is then compared with the
// published transfer function by the SMT solver in exact integer arithmetic
// (power inequalities y^q <= x^p with all denominators cleared). The solver is
// used here as an exact-arithmetic oracle that is independent of Go's floating
// point; the domain (every table entry) is covered completely.

type curveTables struct {
	Pkg  string
	T8   []float64 // decode tables as exact float32 values
	T16  []float64
	L8   []uint64
	L16  []uint64
	Hash string
}

func termsToFloats(v sym.Value) ([]float64, bool) {
	ts, ok := sym.SliceTerms(v)
	if !ok {
		return nil, false
	}
	out := make([]float64, len(ts))
	for i, t := range ts {
		if !t.IsConst() || t.Sort.K != sym.SFP {
			return nil, false
		}
		out[i] = t.F
	}
	return out, true
}

func termsToUints(v sym.Value) ([]uint64, bool) {
	ts, ok := sym.SliceTerms(v)
	if !ok {
		return nil, false
	}
	out := make([]uint64, len(ts))
	for i, t := range ts {
		if !t.IsConst() || t.Sort.K != sym.SBV {
			return nil, false
		}
		out[i] = t.C
	}
	return out, true
}

// extractTables runs VerifHarness_Tables of pkg concretely in the executor and
// reads the four tables back from the package's globals.
func extractTables(prog *sym.Program, pkg string) (*curveTables, *sym.Report, error) {
	ct := &curveTables{Pkg: pkg}
	var mu sync.Mutex
	var ferr error
	h := &sym.Harness{Pkg: pkg, Func: "VerifHarness_Tables", SampleModels: 0, Workers: 1}
	h.OnPathEnd = func(e *sym.Exec) {
		mu.Lock()
		defer mu.Unlock()
		var ok1, ok2, ok3, ok4 bool
		ct.T8, ok1 = termsToFloats(e.GlobalValue(sym.ModPath+"/"+pkg, "encoded8ToLinearLUT"))
		ct.T16, ok2 = termsToFloats(e.GlobalValue(sym.ModPath+"/"+pkg, "encoded16ToLinearLUT"))
		ct.L8, ok3 = termsToUints(e.GlobalValue(sym.ModPath+"/"+pkg, "linearToEncoded8LUT"))
		ct.L16, ok4 = termsToUints(e.GlobalValue(sym.ModPath+"/"+pkg, "linearToEncoded16LUT"))
		if !(ok1 && ok2 && ok3 && ok4) {
			ferr = fmt.Errorf("%s: tables are not concrete slices or arrays after construction", pkg)
		} else if len(ct.T8) != 256 || len(ct.T16) != 65536 || len(ct.L8) != 512 || len(ct.L16) != 65536 {
			ferr = fmt.Errorf("%s: table sizes %d/%d/%d/%d after first use, want 256/65536/512/65536 (a table was not built or has the wrong size)", pkg, len(ct.T8), len(ct.T16), len(ct.L8), len(ct.L16))
		}
	}
	rep := prog.Explore(h)
	for l := range rep.Reaches {
		if strings.HasPrefix(l, "tables-fnv-") {
			ct.Hash = l
		}
	}
	if ferr != nil {
		return nil, rep, ferr
	}
	if len(rep.EngineErrors) > 0 {
		return nil, rep, fmt.Errorf("%s: %s", pkg, rep.EngineErrors[0])
	}
	if ct.Hash == "" {
		return nil, rep, fmt.Errorf("%s: table harness did not complete", pkg)
	}
	return ct, rep, nil
}

// ---------- exact obligations ----------

type obligation struct {
	label string
	smt   string // a Bool term over integer literals
}

func ratOf(f float64) *big.Rat {
	r := new(big.Rat)
	r.SetFloat64(f)
	return r
}

func rat(s string) *big.Rat {
	r, ok := new(big.Rat).SetString(s)
	if !ok {
		panic("bad rational " + s)
	}
	return r
}

// powChain returns let-bindings computing base^n by binary exponentiation and
// the name of the result.
func powChain(sb *strings.Builder, base string, n int, prefix string) string {
	// squares
	cur := prefix + "_1"
	fmt.Fprintf(sb, "(let ((%s %s)) ", cur, base)
	closers := 1
	result := ""
	bit := 1
	for m := n; m > 0; m >>= 1 {
		if m&1 == 1 {
			if result == "" {
				result = cur
			} else {
				nr := fmt.Sprintf("%s_r%d", prefix, bit)
				fmt.Fprintf(sb, "(let ((%s (* %s %s))) ", nr, result, cur)
				closers++
				result = nr
			}
		}
		if m > 1 {
			nx := fmt.Sprintf("%s_%d", prefix, bit*2)
			fmt.Fprintf(sb, "(let ((%s (* %s %s))) ", nx, cur, cur)
			closers++
			cur = nx
		}
		bit *= 2
	}
	// the caller closes `closers` parentheses after using result
	return fmt.Sprintf("%s|%d", result, closers)
}

// powLe builds the integer formula for (x)^p <= (y)^q with x, y >= 0 rationals.
func powLe(x *big.Rat, p int, y *big.Rat, q int) string {
	if x.Sign() <= 0 {
		return "true"
	}
	if y.Sign() < 0 {
		return "false"
	}
	// xn^p * yd^q <= yn^q * xd^p
	var sb strings.Builder
	parts := []struct {
		v *big.Int
		n int
		k string
	}{{x.Num(), p, "a"}, {y.Denom(), q, "b"}, {y.Num(), q, "c"}, {x.Denom(), p, "d"}}
	names := make([]string, 4)
	total := 0
	for i, pt := range parts {
		r := powChain(&sb, pt.v.String(), pt.n, pt.k)
		bar := strings.LastIndex(r, "|")
		names[i] = r[:bar]
		var c int
		fmt.Sscanf(r[bar+1:], "%d", &c)
		total += c
	}
	fmt.Fprintf(&sb, "(<= (* %s %s) (* %s %s))", names[0], names[1], names[2], names[3])
	sb.WriteString(strings.Repeat(")", total))
	return sb.String()
}

type curveSpec struct {
	name string
	// eotfBounds returns obligations lo <= EOTF(c) <= hi as formula strings
	eotf func(c, lo, hi *big.Rat) string
	oetf func(v, lo, hi *big.Rat) string
}

func andS(a, b string) string { return "(and " + a + " " + b + ")" }

// between: lo <= x^(p/q) <= hi for x >= 0
func powBetween(x *big.Rat, p, q int, lo, hi *big.Rat) string {
	// lo <= x^(p/q)  <=>  lo^q <= x^p ;  x^(p/q) <= hi <=> x^p <= hi^q
	return andS(powLe(lo, q, x, p), powLe(x, p, hi, q))
}

func linBetween(x *big.Rat, lo, hi *big.Rat) string {
	return andS(powLe(lo, 1, x, 1), powLe(x, 1, hi, 1))
}

var curves = map[string]curveSpec{
	// IEC 61966-2-1
	"srgb": {
		name: "sRGB (IEC 61966-2-1)",
		eotf: func(c, lo, hi *big.Rat) string {
			if c.Cmp(rat("0.04045")) <= 0 {
				return linBetween(new(big.Rat).Quo(c, rat("12.92")), lo, hi)
			}
			b := new(big.Rat).Quo(new(big.Rat).Add(c, rat("0.055")), rat("1.055"))
			return powBetween(b, 12, 5, lo, hi)
		},
		oetf: func(v, lo, hi *big.Rat) string {
			if v.Cmp(rat("0.0031308")) <= 0 {
				return linBetween(new(big.Rat).Mul(v, rat("12.92")), lo, hi)
			}
			// lo <= 1.055 v^(5/12) - 0.055 <= hi
			alo := new(big.Rat).Quo(new(big.Rat).Add(lo, rat("0.055")), rat("1.055"))
			ahi := new(big.Rat).Quo(new(big.Rat).Add(hi, rat("0.055")), rat("1.055"))
			return powBetween(v, 5, 12, alo, ahi)
		},
	},
	// Adobe RGB (1998) 4.3.4: gamma 563/256
	"adobergb": {
		name: "Adobe RGB (1998)",
		eotf: func(c, lo, hi *big.Rat) string { return powBetween(c, 563, 256, lo, hi) },
		oetf: func(v, lo, hi *big.Rat) string { return powBetween(v, 256, 563, lo, hi) },
	},
	// ROMM RGB / ISO 22028-2: Et = 1/512
	"prophotorgb": {
		name: "ProPhoto / ROMM RGB (ISO 22028-2)",
		eotf: func(c, lo, hi *big.Rat) string {
			if c.Cmp(rat("1/32")) < 0 {
				return linBetween(new(big.Rat).Quo(c, rat("16")), lo, hi)
			}
			return powBetween(c, 9, 5, lo, hi)
		},
		oetf: func(v, lo, hi *big.Rat) string {
			if v.Cmp(rat("1/512")) < 0 {
				return linBetween(new(big.Rat).Mul(v, rat("16")), lo, hi)
			}
			return powBetween(v, 5, 9, lo, hi)
		},
	},
}

func decodeObligations(ct *curveTables) []obligation {
	spec := curves[ct.Pkg]
	eps := rat("3/10000000")
	var obs []obligation
	add := func(tbl string, t []float64, s int64) {
		for i, f := range t {
			c := big.NewRat(int64(i), s)
			tv := ratOf(f)
			lo := new(big.Rat).Sub(tv, eps)
			hi := new(big.Rat).Add(tv, eps)
			// EOTF(c) within [tv-eps, tv+eps]
			obs = append(obs, obligation{fmt.Sprintf("%s %s[%d] within 3e-7 of the published EOTF", ct.Pkg, tbl, i), spec.eotf(c, lo, hi)})
		}
	}
	add("T8", ct.T8, 255)
	add("T16", ct.T16, 65535)
	return obs
}

func encodeObligations(ct *curveTables) []obligation {
	spec := curves[ct.Pkg]
	var obs []obligation
	add := func(tbl string, l []uint64, s int64, max int64) {
		// h = 0.5 + s_T, s_T = max*2^-24 + max*2^-23 + 2^-10 (DESIGN 3.1)
		h := new(big.Rat).Add(rat("1/2"), new(big.Rat).Add(new(big.Rat).Mul(big.NewRat(max, 1), rat("3/16777216")), rat("1/1024")))
		for k, code := range l {
			v := big.NewRat(int64(k), s)
			lo := new(big.Rat).Quo(new(big.Rat).Sub(big.NewRat(int64(code), 1), h), big.NewRat(max, 1))
			hi := new(big.Rat).Quo(new(big.Rat).Add(big.NewRat(int64(code), 1), h), big.NewRat(max, 1))
			obs = append(obs, obligation{fmt.Sprintf("%s %s[%d] within 0.5+s_T codes of max*OETF(k/S)", ct.Pkg, tbl, k), spec.oetf(v, lo, hi)})
		}
	}
	add("LUT8", ct.L8, 511, 255)
	add("LUT16", ct.L16, 65535, 65535)
	return obs
}

func realLit(f float64) string {
	r := ratOf(f)
	s := "(/ " + new(big.Int).Abs(r.Num()).String() + ".0 " + r.Denom().String() + ".0)"
	if r.Sign() < 0 {
		return "(- " + s + ")"
	}
	return s
}

// structural obligations: endpoints, monotonicity, T8[v] == T16[257 v]
func structuralDecode(ct *curveTables) []obligation {
	var obs []obligation
	bits := func(f float64) string { return fmt.Sprintf("#x%08x", math.Float32bits(float32(f))) }
	obs = append(obs, obligation{ct.Pkg + " T8[0] is +0", "(= " + bits(ct.T8[0]) + " #x00000000)"})
	obs = append(obs, obligation{ct.Pkg + " T16[0] is +0", "(= " + bits(ct.T16[0]) + " #x00000000)"})
	obs = append(obs, obligation{ct.Pkg + " T8[255] is 1", "(= " + bits(ct.T8[255]) + " #x3f800000)"})
	obs = append(obs, obligation{ct.Pkg + " T16[65535] is 1", "(= " + bits(ct.T16[65535]) + " #x3f800000)"})
	for i := 0; i+1 < len(ct.T8); i++ {
		obs = append(obs, obligation{fmt.Sprintf("%s T8[%d] < T8[%d]", ct.Pkg, i, i+1), "(< " + realLit(ct.T8[i]) + " " + realLit(ct.T8[i+1]) + ")"})
	}
	for i := 0; i+1 < len(ct.T16); i++ {
		obs = append(obs, obligation{fmt.Sprintf("%s T16[%d] < T16[%d]", ct.Pkg, i, i+1), "(< " + realLit(ct.T16[i]) + " " + realLit(ct.T16[i+1]) + ")"})
	}
	for v := 0; v < 256; v++ {
		obs = append(obs, obligation{fmt.Sprintf("%s T8[%d] == T16[%d] (bit pattern)", ct.Pkg, v, 257*v), "(= " + bits(ct.T8[v]) + " " + bits(ct.T16[257*v]) + ")"})
	}
	return obs
}

func structuralEncode(ct *curveTables) []obligation {
	var obs []obligation
	obs = append(obs, obligation{ct.Pkg + " LUT8[0] is 0", fmt.Sprintf("(= %d 0)", ct.L8[0])})
	obs = append(obs, obligation{ct.Pkg + " LUT16[0] is 0", fmt.Sprintf("(= %d 0)", ct.L16[0])})
	obs = append(obs, obligation{ct.Pkg + " LUT8[511] is 255", fmt.Sprintf("(= %d 255)", ct.L8[511])})
	obs = append(obs, obligation{ct.Pkg + " LUT16[65535] is 65535", fmt.Sprintf("(= %d 65535)", ct.L16[65535])})
	for i := 0; i+1 < len(ct.L8); i++ {
		obs = append(obs, obligation{fmt.Sprintf("%s LUT8[%d] <= LUT8[%d]", ct.Pkg, i, i+1), fmt.Sprintf("(<= %d %d)", ct.L8[i], ct.L8[i+1])})
	}
	for i := 0; i+1 < len(ct.L16); i++ {
		obs = append(obs, obligation{fmt.Sprintf("%s LUT16[%d] <= LUT16[%d]", ct.Pkg, i, i+1), fmt.Sprintf("(<= %d %d)", ct.L16[i], ct.L16[i+1])})
	}
	return obs
}

// ---------- discharging ----------

type groundStats struct {
	Obligations int
	Discharged  int
	Queries     int
	Failed      []string
	FailedMore  int
	Unknown     []string
	Time        time.Duration
	Samples     []interface{}
}

func z3Ground(script string, timeoutS int) string {
	cmd := exec.Command("/usr/bin/z3", "-in", "-smt2", fmt.Sprintf("-T:%d", timeoutS))
	cmd.Stdin = strings.NewReader(script)
	out, _ := cmd.CombinedOutput()
	for _, l := range strings.Split(string(out), "\n") {
		l = strings.TrimSpace(l)
		if l == "sat" || l == "unsat" {
			return l
		}
		if strings.Contains(l, "error") {
			return "error: " + l
		}
	}
	return "unknown"
}

// dischargeGround proves every obligation (unsat of the negated conjunction per
// batch; failing batches are bisected down to single obligations).
func dischargeGround(obs []obligation, batch int, timeoutS int) *groundStats {
	st := &groundStats{Obligations: len(obs)}
	t0 := time.Now()
	type job struct{ lo, hi int }
	jobs := make(chan job, 4096)
	var mu sync.Mutex
	var wg sync.WaitGroup
	var pending sync.WaitGroup
	var run func(j job)
	run = func(j job) {
		var sb strings.Builder
		sb.WriteString("(assert (not (and true")
		for _, o := range obs[j.lo:j.hi] {
			sb.WriteString("\n ")
			sb.WriteString(o.smt)
		}
		sb.WriteString(")))\n(check-sat)\n")
		res := z3Ground(sb.String(), timeoutS)
		mu.Lock()
		st.Queries++
		tooMany := len(st.Failed) >= 12
		mu.Unlock()
		switch {
		case res == "unsat":
			mu.Lock()
			st.Discharged += j.hi - j.lo
			mu.Unlock()
		case j.hi-j.lo == 1:
			mu.Lock()
			if res == "sat" {
				st.Failed = append(st.Failed, obs[j.lo].label)
			} else {
				st.Unknown = append(st.Unknown, obs[j.lo].label+": "+res)
			}
			mu.Unlock()
		case tooMany && res == "sat":
			mu.Lock()
			st.FailedMore += j.hi - j.lo
			mu.Unlock()
		default:
			mid := (j.lo + j.hi) / 2
			run(job{j.lo, mid})
			run(job{mid, j.hi})
		}
	}
	for w := 0; w < 16; w++ {
		wg.Add(1)
		go func() {
			defer wg.Done()
			for j := range jobs {
				run(j)
				pending.Done()
			}
		}()
	}
	for lo := 0; lo < len(obs); lo += batch {
		hi := lo + batch
		if hi > len(obs) {
			hi = len(obs)
		}
		pending.Add(1)
		jobs <- job{lo, hi}
	}
	pending.Wait()
	close(jobs)
	wg.Wait()
	st.Time = time.Since(t0)
	sort.Strings(st.Failed)
	for _, i := range []int{0, len(obs) / 2, len(obs) - 1} {
		if i >= 0 && i < len(obs) {
			s := obs[i].smt
			if len(s) > 400 {
				s = s[:400] + "..."
			}
			st.Samples = append(st.Samples, map[string]interface{}{"obligation": obs[i].label, "smt": s})
		}
	}
	return st
}

func runCmd(bin string, args []string, stdin string) string {
	cmd := exec.Command(bin, args...)
	cmd.Stdin = strings.NewReader(stdin)
	out, _ := cmd.CombinedOutput()
	return string(out)
}
