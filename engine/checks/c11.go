package checks

import (
	"encoding/json"
	"fmt"
	"os"
	"sort"
	"strings"
	"sync"
	"time"

	"gosym/sym"
)

// C11: happens-before encoding built from the executor's access logs.

type hbEvent struct {
	thread int
	idx    int // position in the thread
	acc    sym.Access
	name   string
}

type hbThread struct {
	name   string
	events []hbEvent
}

func isPlain(a sym.Access) bool { return a.Sync == "" }

// scenario: threads + static synchronisation edges + timestamp constraints.
type hbScenario struct {
	name    string
	threads []hbThread
	edges   [][2][2]int // (thread,idx) -> (thread,idx)
	tsLess  [][2][2]int // SC-order constraints ts(a) < ts(b) (guards)
}

func (s *hbScenario) add(th hbThread) int {
	t := len(s.threads)
	for i := range th.events {
		th.events[i].thread = t
		th.events[i].idx = i
	}
	s.threads = append(s.threads, th)
	return t
}

type raceResult struct {
	scenario string
	result   string // sat | unsat | unknown
	pair     string
	queryS   float64
}

// solve: is there a feasible SC execution of the scenario exhibiting a data race?
func (s *hbScenario) solve(posOf func(sym.Access) string) raceResult {
	// flatten
	type key struct{ t, i int }
	id := map[key]int{}
	var all []hbEvent
	for t, th := range s.threads {
		for i, ev := range th.events {
			id[key{t, i}] = len(all)
			_ = ev
			all = append(all, th.events[i])
		}
	}
	n := len(all)
	hb := make([][]bool, n)
	for i := range hb {
		hb[i] = make([]bool, n)
	}
	for t, th := range s.threads {
		for i := 0; i+1 < len(th.events); i++ {
			hb[id[key{t, i}]][id[key{t, i + 1}]] = true
		}
	}
	for _, e := range s.edges {
		hb[id[key{e[0][0], e[0][1]}]][id[key{e[1][0], e[1][1]}]] = true
	}
	for k := 0; k < n; k++ {
		for i := 0; i < n; i++ {
			if hb[i][k] {
				for j := 0; j < n; j++ {
					if hb[k][j] {
						hb[i][j] = true
					}
				}
			}
		}
	}
	// candidate pairs
	var pairs [][2]int
	for i := 0; i < n; i++ {
		for j := i + 1; j < n; j++ {
			a, b := all[i], all[j]
			if a.thread == b.thread || !isPlain(a.acc) || !isPlain(b.acc) {
				continue
			}
			if a.acc.Loc != b.acc.Loc || !(a.acc.Write || b.acc.Write) {
				continue
			}
			pairs = append(pairs, [2]int{i, j})
		}
	}
	// SMT: integer timestamps; po; guards; edges imply order; a race pair is selected
	var sb strings.Builder
	for i := 0; i < n; i++ {
		fmt.Fprintf(&sb, "(declare-fun ts%d () Int)\n", i)
	}
	for t, th := range s.threads {
		for i := 0; i+1 < len(th.events); i++ {
			fmt.Fprintf(&sb, "(assert (< ts%d ts%d))\n", id[key{t, i}], id[key{t, i + 1}])
		}
	}
	for _, e := range s.edges {
		fmt.Fprintf(&sb, "(assert (< ts%d ts%d))\n", id[key{e[0][0], e[0][1]}], id[key{e[1][0], e[1][1]}])
	}
	for _, e := range s.tsLess {
		fmt.Fprintf(&sb, "(assert (< ts%d ts%d))\n", id[key{e[0][0], e[0][1]}], id[key{e[1][0], e[1][1]}])
	}
	sb.WriteString("(declare-fun pair () Int)\n")
	// hb as an uninterpreted relation given by ground facts (closure computed above and
	// re-checked by the solver through the chosen pair's definition)
	var disj []string
	for k, p := range pairs {
		if hb[p[0]][p[1]] || hb[p[1]][p[0]] {
			continue
		}
		disj = append(disj, fmt.Sprintf("(= pair %d)", k))
	}
	if len(disj) == 0 {
		sb.WriteString("(assert false)\n")
	} else {
		fmt.Fprintf(&sb, "(assert (or %s))\n", strings.Join(disj, " "))
	}
	sb.WriteString("(check-sat)\n(get-value (pair))\n")
	t0 := time.Now()
	out := z3Raw(sb.String(), 60)
	rr := raceResult{scenario: s.name, queryS: time.Since(t0).Seconds(), result: "unknown"}
	lines := strings.Split(out, "\n")
	if len(lines) > 0 {
		switch strings.TrimSpace(lines[0]) {
		case "sat":
			rr.result = "sat"
			var k int
			if i := strings.Index(out, "((pair "); i >= 0 {
				fmt.Sscanf(out[i:], "((pair %d))", &k)
			}
			if k < len(pairs) {
				a, b := all[pairs[k][0]], all[pairs[k][1]]
				rw := func(e hbEvent) string {
					if e.acc.Write {
						return "write"
					}
					return "read"
				}
				rr.pair = fmt.Sprintf("%s %s by %s / %s %s by %s", rw(a), posOf(a.acc), s.threads[a.thread].name, rw(b), posOf(b.acc), s.threads[b.thread].name)
			}
		case "unsat":
			rr.result = "unsat"
		}
	}
	return rr
}

func z3Raw(script string, timeoutS int) string {
	return runCmd("/usr/bin/z3", []string{"-in", "-smt2", fmt.Sprintf("-T:%d", timeoutS)}, script)
}

// lazyScenarios builds the concurrent-first-use scenarios from the "first" and "later" logs.
func lazyScenarios(log []sym.Access, label string) []*hbScenario {
	var first, later []sym.Access
	for _, a := range log {
		switch a.Seg {
		case "first":
			first = append(first, a)
		case "later":
			later = append(later, a)
		}
	}
	mk := func(name string, accs []sym.Access) hbThread {
		th := hbThread{name: name}
		for _, a := range accs {
			th.events = append(th.events, hbEvent{acc: a})
		}
		return th
	}
	// cells allocated during a call are private to that call: only locations touched in
	// both logged calls (package state and what it references) are shared between callers
	inFirst, inLater := map[*sym.Value]bool{}, map[*sym.Value]bool{}
	for _, a := range first {
		if isPlain(a) {
			inFirst[a.Loc] = true
		}
	}
	for _, a := range later {
		if isPlain(a) {
			inLater[a.Loc] = true
		}
	}
	shared := func(accs []sym.Access) []sym.Access {
		var out []sym.Access
		for _, a := range accs {
			if !isPlain(a) || (inFirst[a.Loc] && inLater[a.Loc]) {
				out = append(out, a)
			}
		}
		return out
	}
	first, later = shared(first), shared(later)
	// waiter: first call minus the Once body
	var waiter []sym.Access
	in := false
	hasRun := false
	for _, a := range first {
		if a.Sync == "once.run" {
			in = true
			hasRun = true
			continue
		}
		if a.Sync == "once.done" {
			in = false
			continue
		}
		if !in {
			waiter = append(waiter, a)
		}
	}
	find := func(th hbThread, sync string) int {
		for i, e := range th.events {
			if e.acc.Sync == sync {
				return i
			}
		}
		return -1
	}
	build := func(name string, others ...hbThread) *hbScenario {
		s := &hbScenario{name: label + ": " + name}
		r := s.add(mk("runner (first caller)", first))
		rdone := find(s.threads[r], "once.done")
		for _, o := range others {
			t := s.add(o)
			th := s.threads[t]
			// Once contract: completion of f is synchronized before the return of every Do
			if x := find(th, "once.exit"); x >= 0 && rdone >= 0 {
				s.edges = append(s.edges, [2][2]int{{r, rdone}, {t, x}})
			}
			enter := find(th, "once.enter")
			// guards: which of the runner's writes each read observed when the log was taken
			for i, e := range th.events {
				if !isPlain(e.acc) || e.acc.Write {
					continue
				}
				firstW, lastW := -1, -1
				for j, re := range s.threads[r].events {
					if isPlain(re.acc) && re.acc.Write && re.acc.Loc == e.acc.Loc {
						if firstW < 0 {
							firstW = j
						}
						lastW = j
					}
				}
				if lastW < 0 {
					continue
				}
				if strings.HasPrefix(o.name, "waiter") && enter >= 0 && i < enter {
					// read before entering Do saw the initial state
					s.tsLess = append(s.tsLess, [2][2]int{{t, i}, {r, firstW}})
				} else {
					s.tsLess = append(s.tsLess, [2][2]int{{r, lastW}, {t, i}})
				}
			}
		}
		return s
	}
	var out []*hbScenario
	out = append(out, build("first caller || later caller", mk("later caller", later)))
	if hasRun {
		out = append(out, build("first caller || caller that finds the Once taken", mk("waiter", waiter)))
		out = append(out, build("first caller || waiter || later caller", mk("waiter", waiter), mk("later caller", later)))
	}
	return out
}

// workerScenario: goroutines of one RunWorkers call with go / WaitGroup edges.
func workerScenario(log []sym.Access, label string) *hbScenario {
	s := &hbScenario{name: label + ": worker goroutines"}
	byGo := map[int][]sym.Access{}
	var order []int
	for _, a := range log {
		if a.Seg != "workers" {
			continue
		}
		if _, ok := byGo[a.Go]; !ok {
			order = append(order, a.Go)
		}
		byGo[a.Go] = append(byGo[a.Go], a)
	}
	sort.Ints(order)
	tid := map[int]int{}
	for _, g := range order {
		th := hbThread{name: fmt.Sprintf("goroutine %d", g)}
		for _, a := range byGo[g] {
			th.events = append(th.events, hbEvent{acc: a})
		}
		tid[g] = s.add(th)
	}
	// go edges: parent's "go" event -> child's first event; Done -> Wait
	for g, t := range tid {
		for i, e := range s.threads[t].events {
			if e.acc.Sync == "go" {
				if ct, ok := tid[e.acc.Other]; ok && len(s.threads[ct].events) > 0 {
					s.edges = append(s.edges, [2][2]int{{t, i}, {ct, 0}})
				}
			}
			if e.acc.Sync == "wg.done" {
				for pg, pt := range tid {
					if pg == g {
						continue
					}
					for j, pe := range s.threads[pt].events {
						if pe.acc.Sync == "wg.wait" && pe.acc.Loc == e.acc.Loc {
							s.edges = append(s.edges, [2][2]int{{t, i}, {pt, j}})
						}
					}
				}
			}
		}
	}
	return s
}

func c11Custom(ctx *Ctx) *Extra {
	ex := &Extra{Bounds: map[string]interface{}{"threads": "2 and 3 concurrent callers per lazily initialised function (first caller, a caller that finds the Once taken, a later caller); 3 worker goroutines over a 2x4 image for 3 destination types", "events": "at most 6 logged accesses per instruction, goroutine and calling context (three innermost call sites); builtin copy logged as loads and stores"}}
	type logged struct {
		label string
		log   []sym.Access
		posOf func(sym.Access) string
		which int
		names map[*sym.Value]string
	}
	var mu sync.Mutex
	var logs []logged
	collect := func(fn string) *sym.Report {
		h := &sym.Harness{Pkg: "displayp3", Func: fn, Workers: 4}
		h.OnPathEnd = func(e *sym.Exec) {
			l := append([]sym.Access(nil), e.AccessLog()...)
			lbl := fn
			w := -1
			for _, iv := range e.InputValues() {
				lbl += fmt.Sprintf("[%d]", iv)
				if w < 0 {
					w = int(iv)
				}
			}
			want := map[*sym.Value]bool{}
			for _, a := range l {
				if a.Loc != nil {
					want[a.Loc] = true
				}
			}
			names := e.GlobalNames(want)
			mu.Lock()
			logs = append(logs, logged{lbl, l, func(a sym.Access) string {
				if a.Instr == nil {
					return a.Sync
				}
				return e.PosOf(a.Instr)
			}, w, names})
			mu.Unlock()
		}
		return ctx.Prog.Explore(h)
	}
	for _, fn := range []string{"VerifHarness_C11_Lazy", "VerifHarness_C11_Workers"} {
		rep := collect(fn)
		for _, er := range rep.EngineErrors {
			ex.Inconclusive = append(ex.Inconclusive, fn+": "+er)
		}
		for f := range rep.Funcs {
			ex.Funcs = append(ex.Funcs, f)
		}
	}
	names := []string{"srgb.From16Bit", "srgb.To16Bit", "adobergb.From16Bit", "adobergb.To16Bit", "prophotorgb.From16Bit", "prophotorgb.To16Bit", "displayp3.LineariseColor", "displayp3.EncodeColor",
		"ciexyz.AdaptBetweenXYZWhitePoints", "ciexyz.AdaptBetweenXYYWhitePoints", "ciexyz.ToLAB/ColorFromLAB", "srgb XYZ and 8-bit conversions", "adobergb XYZ and 8-bit conversions", "prophotorgb XYZ and 8-bit conversions", "displayp3 XYZ and colour constructors",
		"pngmeta.Load", "jpegmeta.Load", "webpmeta.Load", "autometa.Load"}
	sort.Slice(logs, func(i, j int) bool { return logs[i].label < logs[j].label })
	for _, lg := range logs {
		var scs []*hbScenario
		label := lg.label
		if strings.Contains(lg.label, "Lazy") {
			if lg.which >= 0 && lg.which < len(names) {
				label = names[lg.which]
			}
			scs = lazyScenarios(lg.log, label)
		} else {
			scs = []*hbScenario{workerScenario(lg.log, lg.label)}
		}
		for _, sc := range scs {
			rr := sc.solve(lg.posOf)
			ex.Obligations++
			ex.Queries++
			ex.SolverTime += time.Duration(rr.queryS * float64(time.Second))
			nev := 0
			for _, th := range sc.threads {
				nev += len(th.events)
			}
			ex.Samples = append(ex.Samples, map[string]interface{}{"scenario": sc.name, "threads": len(sc.threads), "events": nev, "sync_edges": len(sc.edges), "verdict": map[string]string{"unsat": "no data race in any SC execution of this scenario", "sat": "data race: " + rr.pair, "unknown": "undecided"}[rr.result]})
			switch rr.result {
			case "unsat":
				ex.Discharged++
			case "sat":
				// confirm natively under the race detector (fresh process)
				confirmed := false
				detail := ""
				if strings.Contains(lg.label, "Lazy") {
					rf := &ReplayFile{Property: "C11", Harness: "displayp3.VerifHarness_C11_NativeRace", Pkg: "displayp3", Func: "VerifHarness_C11_NativeRace", Kind: "race", Label: "data race on first use of " + label, Detail: rr.pair, Expect: "fail",
						Inputs: []ReplayInput{{Name: "choice_1", Tag: "choice", Bits: fmt.Sprintf("%d", lg.which)}}}
					f := writeReplay(rf)
					res, err := NativeReplay(ctx.Prog, "displayp3", []string{f}, true)
					if err == nil && res[f] != nil && (len(res[f].Failures) > 0 || res[f].Panic != "") {
						confirmed = true
					} else if err != nil {
						detail = err.Error()
					}
					if confirmed {
						ex.Failures = append(ex.Failures, fmt.Sprintf("data race on first use of %s|%s|replay=%s", label, rr.pair, f))
					} else {
						ex.Inconclusive = append(ex.Inconclusive, fmt.Sprintf("race model for %s did not reproduce under the race detector (%s %s)", label, rr.pair, detail))
					}
				} else {
					rf := &ReplayFile{Property: "C11", Harness: "displayp3.VerifHarness_C11_NativeWorkers", Pkg: "displayp3", Func: "VerifHarness_C11_NativeWorkers", Kind: "race", Label: "data race among worker goroutines", Detail: rr.pair, Expect: "fail",
						Inputs: []ReplayInput{{Name: "choice_1", Tag: "choice", Bits: fmt.Sprintf("%d", lg.which)}}}
					f := writeReplay(rf)
					res, err := NativeReplay(ctx.Prog, "displayp3", []string{f}, true)
					if err == nil && res[f] != nil && (len(res[f].Failures) > 0 || res[f].Panic != "") {
						ex.Failures = append(ex.Failures, fmt.Sprintf("data race among the worker goroutines of TransformImageColor (destination kind %d)|%s|replay=%s", lg.which, rr.pair, f))
					} else {
						ex.Inconclusive = append(ex.Inconclusive, fmt.Sprintf("race model among worker goroutines (%s) did not reproduce under the race detector: %s", sc.name, rr.pair))
					}
				}
			default:
				ex.Inconclusive = append(ex.Inconclusive, "undecided scenario "+sc.name)
			}
		}
	}
	// ---- cross-function scenarios: the first calls of two different entry points race ----
	// Each log was taken from the pristine process state on its own path, so cell addresses
	// differ between them: locations are matched by the stable names of the package-level
	// state they belong to. Reads of a location the other thread writes are constrained to
	// come before those writes (that is the value the logged control flow observed).
	var lazy []logged
	for _, lg := range logs {
		if strings.Contains(lg.label, "Lazy") && lg.which >= 0 && lg.which < len(names) {
			lazy = append(lazy, lg)
		}
	}
	crossPairs, crossHeld := 0, 0
	for i := 0; i < len(lazy); i++ {
		for j := 0; j < len(lazy); j++ {
			if i == j {
				continue
			}
			sc := crossScenario(lazy[i].log, lazy[i].names, names[lazy[i].which], lazy[j].log, lazy[j].names, names[lazy[j].which])
			if sc == nil {
				continue // no conflicting accesses to common package-level state at all
			}
			crossPairs++
			rr := sc.solve(func(a sym.Access) string {
				if a.Seg == "B" {
					return lazy[j].posOf(a)
				}
				return lazy[i].posOf(a)
			})
			ex.Obligations++
			ex.Queries++
			ex.SolverTime += time.Duration(rr.queryS * float64(time.Second))
			switch rr.result {
			case "unsat":
				ex.Discharged++
				crossHeld++
			case "sat":
				label := names[lazy[i].which] + " || " + names[lazy[j].which]
				rf := &ReplayFile{Property: "C11", Harness: "displayp3.VerifHarness_C11_NativeRacePair", Pkg: "displayp3", Func: "VerifHarness_C11_NativeRacePair", Kind: "race", Label: "data race between the first calls of " + label, Detail: rr.pair, Expect: "fail",
					Inputs: []ReplayInput{{Name: "choice_1", Tag: "choice", Bits: fmt.Sprintf("%d", lazy[i].which)}, {Name: "choice_2", Tag: "choice", Bits: fmt.Sprintf("%d", lazy[j].which)}}}
				f := writeReplay(rf)
				res, err := NativeReplay(ctx.Prog, "displayp3", []string{f}, true)
				if err == nil && res[f] != nil && (len(res[f].Failures) > 0 || res[f].Panic != "") {
					ex.Failures = append(ex.Failures, fmt.Sprintf("data race between the first calls of %s|%s|replay=%s", label, rr.pair, f))
				} else {
					ex.Inconclusive = append(ex.Inconclusive, fmt.Sprintf("race model for %s did not reproduce under the race detector (%s)", label, rr.pair))
				}
			default:
				ex.Inconclusive = append(ex.Inconclusive, "undecided scenario "+sc.name)
			}
		}
	}
	ex.Samples = append(ex.Samples, map[string]interface{}{"scenario": "cross-function first calls (ordered pairs of the entry points that touch common package-level state with at least one write)", "pairs_with_conflicting_accesses": crossPairs, "no_race": crossHeld})
	ex.Assumptions = append(ex.Assumptions,
		"happens-before = program order + go-statement edges + WaitGroup Done->Wait + sync.Once contract (completion of f is synchronized before the return of every Do); the Go scheduler and the implementation of sync are not modelled",
		"control flow of a concurrent caller is one of the variants observed by the executor (first call, first call with the Once body removed, later call), each constrained to the runner's writes it observed; cross-function scenarios pair the first calls of two different entry points and match package-level state by name (heap state not reachable from a package-level variable is call-private)",
		"a data race is a pair of conflicting plain accesses to the same cell from different goroutines unordered by happens-before in a feasible sequentially consistent execution")
	data, _ := json.Marshal(ex.Samples)
	_ = data
	_ = os.Stdout
	return ex
}

// crossScenario: thread A = first call of f (runner), thread B = first call of g, both
// from the pristine state. If both ran the body of the same sync.Once, B is the caller
// that finds the Once taken: its body events are removed and A's completion is
// synchronized before B's return from Do. Returns nil when the two calls have no
// conflicting accesses to commonly named state.
func crossScenario(la []sym.Access, na map[*sym.Value]string, fa string, lb []sym.Access, nb map[*sym.Value]string, fb string) *hbScenario {
	canon := map[string]*sym.Value{}
	cell := func(name string) *sym.Value {
		if c, ok := canon[name]; ok {
			return c
		}
		c := new(sym.Value)
		canon[name] = c
		return c
	}
	pick := func(l []sym.Access, n map[*sym.Value]string, seg string) []sym.Access {
		var out []sym.Access
		for _, a := range l {
			if a.Seg != "first" || a.Loc == nil {
				continue
			}
			nm, ok := n[a.Loc]
			if !ok {
				continue // call-private or heap state not reachable from a package-level variable
			}
			a.Loc = cell(nm)
			a.Seg = seg
			out = append(out, a)
		}
		return out
	}
	A, B := pick(la, na, "A"), pick(lb, nb, "B")
	// common Once run by both?
	ranA := map[*sym.Value]bool{}
	for _, a := range A {
		if a.Sync == "once.run" {
			ranA[a.Loc] = true
		}
	}
	var common *sym.Value
	for _, b := range B {
		if b.Sync == "once.run" && ranA[b.Loc] {
			common = b.Loc
			break
		}
	}
	enterB, exitB := -1, -1
	if common != nil {
		var nb2 []sym.Access
		in := false
		for _, b := range B {
			if b.Loc == common && b.Sync == "once.run" {
				in = true
				continue
			}
			if b.Loc == common && b.Sync == "once.done" {
				in = false
				continue
			}
			if !in {
				nb2 = append(nb2, b)
			}
		}
		B = nb2
	}
	// keep plain accesses to locations both threads touch, and all sync events
	inA, inB := map[*sym.Value]bool{}, map[*sym.Value]bool{}
	for _, a := range A {
		if isPlain(a) {
			inA[a.Loc] = true
		}
	}
	for _, b := range B {
		if isPlain(b) {
			inB[b.Loc] = true
		}
	}
	filter := func(l []sym.Access) []sym.Access {
		var out []sym.Access
		for _, a := range l {
			if !isPlain(a) || (inA[a.Loc] && inB[a.Loc]) {
				out = append(out, a)
			}
		}
		return out
	}
	A, B = filter(A), filter(B)
	conflict := false
	wA, wB := map[*sym.Value]bool{}, map[*sym.Value]bool{}
	for _, a := range A {
		if isPlain(a) && a.Write {
			wA[a.Loc] = true
		}
	}
	for _, b := range B {
		if isPlain(b) && b.Write {
			wB[b.Loc] = true
		}
	}
	for _, a := range A {
		if isPlain(a) && (a.Write || wB[a.Loc]) && inB[a.Loc] {
			conflict = true
		}
	}
	if !conflict {
		return nil
	}
	s := &hbScenario{name: fmt.Sprintf("first call of %s || first call of %s", fa, fb)}
	mk := func(name string, accs []sym.Access) hbThread {
		th := hbThread{name: name}
		for _, a := range accs {
			th.events = append(th.events, hbEvent{acc: a})
		}
		return th
	}
	ta := s.add(mk("first caller of "+fa, A))
	tb := s.add(mk("first caller of "+fb, B))
	doneA := -1
	for i, e := range s.threads[ta].events {
		if common != nil && e.acc.Loc == common && e.acc.Sync == "once.done" {
			doneA = i
		}
	}
	for i, e := range s.threads[tb].events {
		if common != nil && e.acc.Loc == common && e.acc.Sync == "once.enter" && enterB < 0 {
			enterB = i
		}
		if common != nil && e.acc.Loc == common && e.acc.Sync == "once.exit" && exitB < 0 {
			exitB = i // the first return from the shared Do; later events follow in program order
		}
	}
	if doneA >= 0 && exitB >= 0 {
		s.edges = append(s.edges, [2][2]int{{ta, doneA}, {tb, exitB}})
	}
	firstLast := func(t int, loc *sym.Value) (int, int) {
		f, l := -1, -1
		for i, e := range s.threads[t].events {
			if isPlain(e.acc) && e.acc.Write && e.acc.Loc == loc {
				if f < 0 {
					f = i
				}
				l = i
			}
		}
		return f, l
	}
	guard := func(t, o int) {
		for i, e := range s.threads[t].events {
			if !isPlain(e.acc) || e.acc.Write {
				continue
			}
			f, l := firstLast(o, e.acc.Loc)
			if f < 0 {
				continue
			}
			if t == tb && exitB >= 0 && i > exitB {
				// after returning from the shared Do, B sees what A's body wrote
				s.tsLess = append(s.tsLess, [2][2]int{{o, l}, {t, i}})
			} else {
				s.tsLess = append(s.tsLess, [2][2]int{{t, i}, {o, f}})
			}
		}
	}
	guard(ta, tb)
	guard(tb, ta)
	return s
}

func init() {
	Register(&Spec{
		ID:          "C11",
		Level:       "other",
		Explanation: "happens-before encoding over the executor's access logs: the symbolic executor runs the real code of every lazily initialised function (srgb/adobergb/prophotorgb From16Bit and To16Bit, Display P3's LineariseColor/EncodeColor through them) once from the pristine state and once more, and the real linear.TransformImageColor with 3 worker goroutines, logging every load/store (cell identity), sync.Once / WaitGroup / go events. From these logs the check builds, per scenario of 2-3 concurrent callers, an SMT problem over integer timestamps (a sequentially consistent interleaving consistent with what each caller observed) and asks for a pair of conflicting plain accesses unordered by happens-before; unsat = no data race in any interleaving of that scenario. A model is replayed in a fresh process under the Go race detector before it is reported",
		Custom:      c11Custom,
		Assumptions: []string{"metadata loaders and conversion helpers are covered only through the worker-goroutine scenario of TransformImageColor and by the executor's observation that they write no package-level state (not a solver query)"},
	})
}
