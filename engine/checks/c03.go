package checks

import "gosym/sym"

var spacePkgs = []string{"srgb", "adobergb", "prophotorgb", "displayp3"}

func init() {
	rerr := sym.Config{Float: sym.FloatRErr, OneShotAsserts: true}
	Register(&Spec{
		ID:          "C03",
		Level:       "model_checking",
		Explanation: "per colour space, symbolic execution of Color.ToXYZ and ColorFromXYZ in real arithmetic with one rounding-error variable per float32 operation (|e| <= 2^-24 |x| + 2^-150; |x| resolved by interval analysis: linear arithmetic): for all RGB in [0,1]^3 (and [-1,2]^3, no clamping) ToXYZ is within 1e-6 (3e-6) of M_ref*RGB and ColorFromXYZ within 2e-6 (6e-6) of M_ref^-1*XYZ, where M_ref is built in the harness from the declared chromaticities by the textbook construction (independent of prism's ciexyz code); both round trips return the input within 2e-6 (1.4e-5 on the wide box = 2e-6*(1+|c|_1) at its maximum); ground: the declared primaries and white equal the published values at their published precision (5e-5), (1,1,1) maps to Y=1 and the declared white, unit primaries to their declared chromaticities within 1e-6",
		Bounds: func(tier string) map[string]interface{} {
			return map[string]interface{}{"spaces": "sRGB, Adobe RGB (1998), ProPhoto RGB, Display P3", "boxes": "[0,1]^3 and [-1,2]^3 as reals (superset of all float32 triples in the box)", "outside": "values outside [-1,2]^3, overflow/NaN inputs, FMA-contracting architectures"}
		},
		Runs: func(tier string, seed int64) []*Run {
			var runs []*Run
			for _, p := range spacePkgs {
				runs = append(runs,
					&Run{H: sym.Harness{Pkg: p, Func: "VerifHarness_C03_Declared", Cfg: rerr}, ExpectReach: []string{"declared"}, SamplePaths: 1},
					&Run{H: sym.Harness{Pkg: p, Func: "VerifHarness_C03_Forward", Cfg: rerr}, ExpectReach: []string{"forward"}},
					&Run{H: sym.Harness{Pkg: p, Func: "VerifHarness_C03_Inverse", Cfg: rerr}, ExpectReach: []string{"inverse"}},
					&Run{H: sym.Harness{Pkg: p, Func: "VerifHarness_C03_RoundTrip", Cfg: rerr}, ExpectReach: []string{"roundtrip"}},
				)
			}
			runs = append(runs, &Run{H: sym.Harness{Pkg: "srgb", Func: "VerifHarness_C03_NegControl", Cfg: rerr}, NegControl: true})
			return runs
		},
		Assumptions: []string{"IEEE-754 float32 operations are modelled as exact result + error e with |e| <= 2^-24|x| + 2^-150 (standard model; no overflow on the boxes); float32->float64 widening is exact"},
	})
}
