package checks

import (
	"fmt"
	"sync"

	"gosym/sym"
)

var curvePkgs = []string{"srgb", "adobergb", "prophotorgb"}

var quantiserMerge = map[string]bool{
	sym.ModPath + "/linear.NormalisedTo8Bit":  true,
	sym.ModPath + "/linear.NormalisedTo9Bit":  true,
	sym.ModPath + "/linear.NormalisedTo16Bit": true,
}

// tableCustom extracts the tables of the three curve packages with the executor and
// discharges the chosen obligation families with the solver.
func tableCustom(ctx *Ctx, decode bool) *Extra {
	ex := &Extra{Bounds: map[string]interface{}{}}
	var all []obligation
	var mu sync.Mutex
	var wg sync.WaitGroup
	for _, pkg := range curvePkgs {
		wg.Add(1)
		go func(pkg string) {
			defer wg.Done()
			ct, rep, err := extractTables(ctx.Prog, pkg)
			mu.Lock()
			defer mu.Unlock()
			if rep != nil {
				for f := range rep.Funcs {
					ex.Funcs = append(ex.Funcs, f)
				}
			}
			if err != nil {
				ex.Inconclusive = append(ex.Inconclusive, "table extraction: "+err.Error())
				return
			}
			var obs []obligation
			if decode {
				obs = append(decodeObligations(ct), structuralDecode(ct)...)
			} else {
				obs = append(encodeObligations(ct), structuralEncode(ct)...)
			}
			all = append(all, obs...)
			ex.Bounds[pkg+"_tables"] = fmt.Sprintf("executor-built, %s; entries: T8 %d, T16 %d, LUT8 %d, LUT16 %d", ct.Hash, len(ct.T8), len(ct.T16), len(ct.L8), len(ct.L16))
		}(pkg)
	}
	wg.Wait()
	if len(ex.Inconclusive) > 0 {
		return ex
	}
	st := dischargeGround(all, 1500, 600)
	ex.Obligations = st.Obligations
	ex.Discharged = st.Discharged
	ex.Queries = st.Queries
	ex.SolverTime = st.Time
	ex.Samples = st.Samples
	for _, f := range st.Failed {
		ex.Failures = append(ex.Failures, f+"|table entry violates the published transfer function")
	}
	for _, u := range st.Unknown {
		ex.Inconclusive = append(ex.Inconclusive, "ground obligation undecided: "+u)
	}
	ex.Assumptions = append(ex.Assumptions,
		"table values are those computed by the executor from the current SSA with the platform's math.Pow for concrete arguments; bit-equality with the natively compiled tables is checked by the FNV label of VerifHarness_Tables on every run",
		"ground obligations are exhaustive over the finite domain of table indices; the solver acts as an exact-arithmetic evaluator there (no search)")
	return ex
}

func init() {
	Register(&Spec{
		ID:          "C01",
		Level:       "model_checking",
		Explanation: "two parts. (a) wiring, symbolic: bounded symbolic execution (bit-precise floats, tables as uninterpreted functions refined with ground facts) shows that every public decode entry point - From8Bit, From16Bit on first use (sync.Once path) and later (fast path), ColorFromNRGBA/RGBA/EncodedColor on opaque colours, Display P3's through srgb - returns that package's table entry at the given code, for all 2^8/2^16 codes at once. (b) table obligations, ground and exhaustive: the tables built by the executor from the current SSA are compared entry by entry, by the solver in exact integer arithmetic, with the published EOTFs (sRGB IEC 61966-2-1 incl. its 0.04045 threshold, Adobe RGB 563/256, ROMM 1.8 with 16*Et) within 3e-7, plus exact end points, strict monotonicity and T8[v]=T16[257v]",
		Bounds: func(tier string) map[string]interface{} {
			return map[string]interface{}{"codes": "all 256 + 65536 codes x 3 curves (Display P3 is shown to use sRGB's functions)", "entry_points": "From8Bit, From16Bit (first use and fast path), ColorFromNRGBA, ColorFromRGBA, ColorFromEncodedColor on opaque colours, per package", "outside": "non-opaque colours (C14), other architectures' math.Pow"}
		},
		Runs: func(tier string, seed int64) []*Run {
			var runs []*Run
			cfg := sym.Config{UFTables: true, OneShotAsserts: true, MergeFuncs: quantiserMerge}
			for _, p := range curvePkgs {
				runs = append(runs, &Run{H: sym.Harness{Pkg: p, Func: "VerifHarness_C01_Wiring", Cfg: cfg, Workers: 1}, ExpectReach: []string{"wired"}, SamplePaths: 1})
				runs = append(runs, &Run{H: sym.Harness{Pkg: p, Func: "VerifHarness_Tables", Workers: 1}, SamplePaths: 1, MinCompleted: 1})
			}
			runs = append(runs, &Run{H: sym.Harness{Pkg: "displayp3", Func: "VerifHarness_C01_Wiring", Cfg: cfg, Workers: 1}, ExpectReach: []string{"wired"}, SamplePaths: 1})
			runs = append(runs, &Run{H: sym.Harness{Pkg: "displayp3", Func: "VerifHarness_C01_Independent", Cfg: cfg, Workers: 6}, ExpectReach: []string{"independent"}, SamplePaths: 1})
			runs = append(runs, &Run{H: sym.Harness{Pkg: "srgb", Func: "VerifHarness_C01_NegControl", Cfg: cfg, Workers: 1}, NegControl: true})
			return runs
		},
		Custom: func(ctx *Ctx) *Extra { return tableCustom(ctx, true) },
	})
}
