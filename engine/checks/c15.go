package checks

import "gosym/sym"

func init() {
	Register(&Spec{
		ID:    "C15",
		Level: "model_checking", CrossSolver: true,
		Explanation: "bounded symbolic execution of ConvertImageToNRGBA/RGBA/RGBA64 against the real image/draw.Draw(Src) executed symbolically on the same source: for each concrete geometry and source type every byte of pixel storage (Pix, Y/Cb/Cr planes, palette entries) is a symbolic byte, so one path covers all pixel contents; output Pix, Stride and Rect are asserted equal (bit-vector equality per byte, e.g. color.YCbCrToRGB against YCbCr.RGBA()>>8 over all 2^24 triples), same-type inputs must come back as the same pointer, and the source storage must be unchanged. Data-dependent branches of the colour conversions are merged with ite-terms (function-level merging for image/color, block-level if-conversion elsewhere)",
		Bounds: func(tier string) map[string]interface{} {
			g := "3 geometries: 2x2 at origin, 1x2 at (-2,3), 2x1 sub-image of a 4x3 parent"
			if tier == "thorough" {
				g = "8 geometries incl. empty, 1x1, 1x3 and 2x2 sub-images, 3x1"
			}
			return map[string]interface{}{"geometries": g, "source_types": "RGBA, NRGBA, RGBA64, NRGBA64, Gray, Gray16, CMYK, Paletted(2 symbolic colours), Alpha, YCbCr x 6 subsampling ratios", "parallelism": "{1,2,3,7,16,rows+5}; goroutines executed sequentially in spawn order (independence of workers is C11's subject)", "oracle": "image/draw of the installed Go 1.23.5", "outside": "images larger than 2x2/3x1, other image types (Alpha16, Uniform, custom), scheduling of worker goroutines"}
		},
		Runs: func(tier string, seed int64) []*Run {
			g := int64(3)
			if tier == "thorough" {
				g = 8
			}
			sg := map[string]int64{"verifC15Geoms": g}
			return []*Run{
				{H: sym.Harness{Func: "VerifHarness_C15_NRGBA", SetGlobals: sg, Workers: 14}, ExpectReach: []string{"converted"}, SamplePaths: 4},
				{H: sym.Harness{Func: "VerifHarness_C15_RGBA", SetGlobals: sg, Workers: 14}, ExpectReach: []string{"converted"}, SamplePaths: 4},
				{H: sym.Harness{Func: "VerifHarness_C15_RGBA64", SetGlobals: sg, Workers: 14}, ExpectReach: []string{"converted"}, SamplePaths: 4},
				{H: sym.Harness{Func: "VerifHarness_C15_NegControl"}, NegControl: true},
			}
		},
	})
}
