// Package checks turns harness explorations into per-property verdicts,
// replays, known-finding handling and evidence files.
package checks

import (
	"crypto/sha1"
	"encoding/json"
	"fmt"
	"math"
	"os"
	"os/exec"
	"path/filepath"
	"sort"
	"strings"
	"sync"
	"time"

	"gosym/sym"

	"golang.org/x/tools/go/ssa"
)

const VerifDir = "/verif"

type Run struct {
	H            sym.Harness
	ExpectReach  []string // labels that must be reached on some completed path
	NegControl   bool     // a deliberately wrong spec: must yield a violation
	SamplePaths  int      // completed paths to cross-validate natively
	Group        string   // evidence grouping
	NoReplay     bool     // violations of this run are not replayable natively (over-approximation)
	MinCompleted int
	// BestEffort: an attempt beyond the registered claim (thorough tier). Undecided
	// queries, exhausted bounds and timeouts of such a run are reported in evidence as
	// "attempted, undecided" and do not make the check inconclusive; violations still count.
	BestEffort bool
	// crossOf: this run repeats runs[crossOf-1] with another solver (thorough tier)
	crossOf int
}

type Extra struct {
	Obligations  int
	Discharged   int
	Failures     []string // VIOLATION-class (confirmed) findings from non-harness steps: "label|detail"
	Inconclusive []string
	Samples      []interface{}
	Funcs        []string
	Assumptions  []string
	Bounds       map[string]interface{}
	SolverTime   time.Duration
	Queries      int
	Validated    int
}

type Spec struct {
	ID          string
	Level       string
	Explanation string
	Bounds      func(tier string) map[string]interface{}
	Runs        func(tier string, seed int64) []*Run
	// Custom runs non-harness obligations (ground tables etc.).
	Custom      func(ctx *Ctx) *Extra
	Assumptions []string
	// CrossSolver: in the thorough tier every regular run is repeated with cvc5 and the two
	// explorations must agree on the number of feasible paths, the reach labels and the
	// number of violations (the set of feasible paths does not depend on the solver)
	CrossSolver bool
}

type Ctx struct {
	Prog *sym.Program
	Tier string
	Seed int64
	Spec *Spec
}

var Registry = map[string]*Spec{}

func Register(s *Spec) { Registry[s.ID] = s }

// ---------- known findings ----------

type Finding struct {
	Property string `json:"property"`
	Status   string `json:"status"` // known | fixed
	Harness  string `json:"harness"`
	Label    string `json:"label"`
	Commit   string `json:"commit,omitempty"`
	What     string `json:"what"`
}

func loadFindings() []Finding {
	var fs []Finding
	data, err := os.ReadFile(filepath.Join(VerifDir, "known_findings.json"))
	if err != nil {
		return nil
	}
	var doc struct {
		Findings []Finding `json:"findings"`
	}
	if json.Unmarshal(data, &doc) == nil {
		fs = doc.Findings
	}
	return fs
}

// ---------- replay ----------

type ReplayInput struct {
	Name string `json:"name"`
	Tag  string `json:"tag"`
	Bits string `json:"bits"`
}

type ReplayFile struct {
	Property string           `json:"property"`
	Harness  string           `json:"harness"`
	Pkg      string           `json:"pkg"`
	Func     string           `json:"func"`
	Kind     string           `json:"kind"`
	Label    string           `json:"label"`
	Detail   string           `json:"detail,omitempty"`
	Globals  map[string]int64 `json:"globals,omitempty"`
	Expect   string           `json:"expect"` // fail | pass
	Reaches  []string         `json:"reaches,omitempty"`
	Inputs   []ReplayInput    `json:"inputs"`
}

func inputsOf(vs []sym.InputVal) []ReplayInput {
	out := make([]ReplayInput, len(vs))
	for i, v := range vs {
		bits := v.Val.Bits
		if v.Val.Rat != nil {
			// real-valued model of a float input: nearest float of the tagged width
			f, _ := v.Val.Rat.Float64()
			switch v.Tag {
			case "f32":
				bits = uint64(math.Float32bits(float32(f)))
			case "f64":
				bits = math.Float64bits(f)
			default:
				bits = uint64(int64(f))
			}
		}
		out[i] = ReplayInput{Name: v.Name, Tag: v.Tag, Bits: fmt.Sprintf("%d", bits)}
	}
	return out
}

func writeReplay(rf *ReplayFile) string {
	dir := filepath.Join(VerifDir, "replays", rf.Property)
	os.MkdirAll(dir, 0o755)
	data, _ := json.MarshalIndent(rf, "", " ")
	h := sha1.Sum(data)
	name := fmt.Sprintf("%s-%x.json", rf.Func, h[:5])
	p := filepath.Join(dir, name)
	os.WriteFile(p, data, 0o644)
	return p
}

type NativeResult struct {
	File     string
	Ran      bool
	Invalid  string
	Failures []string
	Panic    string
	Reached  []string
	Output   string
}

// harnessFuncs lists the VerifHarness_* functions of a package.
func harnessFuncs(p *sym.Program, pkgRel string) []string {
	path := sym.ModPath
	if pkgRel != "" {
		path += "/" + pkgRel
	}
	sp := p.Pkgs[path]
	var out []string
	if sp == nil {
		return nil
	}
	for name := range sp.Members {
		if strings.HasPrefix(name, "VerifHarness_") {
			if sp.Func(name) != nil {
				out = append(out, name)
			}
		}
	}
	sort.Strings(out)
	return out
}

// intGlobals lists the int-typed verif* package variables (tier bounds).
func intGlobals(p *sym.Program, pkgRel string) []string {
	path := sym.ModPath
	if pkgRel != "" {
		path += "/" + pkgRel
	}
	sp := p.Pkgs[path]
	var out []string
	if sp == nil {
		return nil
	}
	for name, m := range sp.Members {
		if g, ok := m.(*ssa.Global); ok && strings.HasPrefix(name, "verif") {
			if g.Type().String() == "*int" {
				out = append(out, name)
			}
		}
	}
	sort.Strings(out)
	return out
}

// NativeReplay runs replay files of one package against the native build of
// /repo (go test -overlay, nothing is written into /repo).
func NativeReplay(p *sym.Program, pkgRel string, files []string, race bool) (map[string]*NativeResult, error) {
	res := map[string]*NativeResult{}
	if len(files) == 0 {
		return res, nil
	}
	tmp, err := os.MkdirTemp("", "verif-replay-")
	if err != nil {
		return nil, err
	}
	defer os.RemoveAll(tmp)
	repl := map[string]string{}
	pkgDir := filepath.Join(sym.RepoDir, pkgRel)
	pkgName := ""
	// harness files + API
	for virt, real := range p.Overlay {
		repl[virt] = real
		if filepath.Dir(virt) == pkgDir {
			data, _ := os.ReadFile(real)
			pkgName = pkgNameOf(data)
		}
	}
	tmpl, err := os.ReadFile(filepath.Join(VerifDir, "harness", "_api", "api.go.tmpl"))
	if err != nil {
		return nil, err
	}
	dirs := map[string]string{}
	for virt, real := range p.Overlay {
		data, _ := os.ReadFile(real)
		dirs[filepath.Dir(virt)] = pkgNameOf(data)
	}
	i := 0
	for d, name := range dirs {
		f := filepath.Join(tmp, fmt.Sprintf("api_%d.go", i))
		i++
		os.WriteFile(f, []byte(strings.Replace(string(tmpl), "PKGNAME", name, 1)), 0o644)
		repl[filepath.Join(d, "zz_verif_api.go")] = f
	}
	repl[filepath.Join(sym.RepoDir, "zzverif/api/api.go")] = filepath.Join(VerifDir, "harness", "_api", "shared.go.tmpl")
	std, err := sym.StdOverlay()
	if err != nil {
		return nil, err
	}
	for path, data := range std {
		f := filepath.Join(tmp, fmt.Sprintf("std_%d.go", i))
		i++
		os.WriteFile(f, data, 0o644)
		repl[path] = f
	}
	// test driver
	var sb strings.Builder
	fmt.Fprintf(&sb, "package %s\n\nimport (\n\t\"fmt\"\n\t\"os\"\n\t\"strings\"\n\t\"testing\"\n\t\"time\"\n\n\t\"github.com/mandykoh/prism/zzverif/api\"\n)\n\n", pkgName)
	sb.WriteString("var verifHarnessTable = map[string]func(){\n")
	for _, fn := range harnessFuncs(p, pkgRel) {
		fmt.Fprintf(&sb, "\t%q: %s,\n", fn, fn)
	}
	sb.WriteString("}\n\n")
	sb.WriteString("var verifIntGlobals = map[string]*int{\n")
	for _, g := range intGlobals(p, pkgRel) {
		fmt.Fprintf(&sb, "\t%q: &%s,\n", g, g)
	}
	sb.WriteString("}\n\n")
	sb.WriteString(`func verifRunOne(file, fn string) {
	fmt.Printf("REPLAY-BEGIN %s\n", file)
	defer func() {
		if r := recover(); r != nil {
			if inv, ok := r.(api.Invalid); ok {
				fmt.Printf("REPLAY-INVALID %s\n", inv.Why)
			} else {
				fmt.Printf("REPLAY-PANIC %v\n", r)
			}
		}
		for _, f := range api.Failures {
			fmt.Printf("REPLAY-FAIL %s\n", f)
		}
		for _, f := range api.Reached {
			fmt.Printf("REPLAY-REACH %s\n", f)
		}
		fmt.Printf("REPLAY-END %s\n", file)
	}()
	api.Reset(file)
	for name, val := range api.Globals(file) {
		if p := verifIntGlobals[name]; p != nil {
			*p = int(val)
		}
	}
	h := verifHarnessTable[fn]
	if h == nil {
		panic(api.Invalid{"unknown harness " + fn})
	}
	done := make(chan interface{}, 1)
	go func() {
		defer func() { done <- recover() }()
		h()
	}()
	select {
	case r := <-done:
		if r != nil {
			panic(r)
		}
	case <-time.After(60 * time.Second):
		api.Failures = append(api.Failures, "steps budget: the call did not return within 60 s")
		return
	}
	api.Finish()
}

func TestVerifReplay(t *testing.T) {
	for _, item := range strings.Split(os.Getenv("VERIF_REPLAY_LIST"), ";") {
		if item == "" {
			continue
		}
		parts := strings.SplitN(item, "=", 2)
		verifRunOne(parts[1], parts[0])
	}
}
`)
	tf := filepath.Join(tmp, "replay_test.go")
	os.WriteFile(tf, []byte(sb.String()), 0o644)
	repl[filepath.Join(pkgDir, "zz_verif_replay_test.go")] = tf
	ov, _ := json.Marshal(map[string]interface{}{"Replace": repl})
	ovf := filepath.Join(tmp, "overlay.json")
	os.WriteFile(ovf, ov, 0o644)
	var list []string
	for _, f := range files {
		data, err := os.ReadFile(f)
		if err != nil {
			return nil, err
		}
		var rf ReplayFile
		if err := json.Unmarshal(data, &rf); err != nil {
			return nil, err
		}
		list = append(list, rf.Func+"="+f)
		res[f] = &NativeResult{File: f}
	}
	// A panic in a goroutine started by the code under test cannot be recovered by the
	// driver: it kills the test binary. The replay being run at that moment is recorded as
	// "process crashed" (a native panic), and the remaining replays run in a new process.
	var out []byte
	remaining := list
	for round := 0; round <= len(files) && len(remaining) > 0; round++ {
		args := []string{"test", "-vet=off", "-count=1", "-run", "^TestVerifReplay$", "-timeout", "20m", "-overlay", ovf}
		if race {
			args = append(args, "-race")
		}
		args = append(args, "-v", "./"+pkgRel)
		cmd := exec.Command("go", args...)
		cmd.Dir = sym.RepoDir
		cmd.Env = append(os.Environ(), "GOFLAGS=-mod=mod", "GOPROXY=off", "GOSUMDB=off", "GOTOOLCHAIN=local", "VERIF_REPLAY_LIST="+strings.Join(remaining, ";"))
		o, _ := cmd.CombinedOutput()
		out = append(out, o...)
		var cur *NativeResult
		for _, line := range strings.Split(string(o), "\n") {
			line = strings.TrimSpace(line)
			switch {
			case strings.HasPrefix(line, "REPLAY-BEGIN "):
				cur = res[strings.TrimPrefix(line, "REPLAY-BEGIN ")]
				if cur != nil {
					cur.Ran = true
				}
			case cur == nil:
			case strings.HasPrefix(line, "REPLAY-INVALID "):
				cur.Invalid = strings.TrimPrefix(line, "REPLAY-INVALID ")
			case strings.HasPrefix(line, "REPLAY-PANIC "):
				cur.Panic = strings.TrimPrefix(line, "REPLAY-PANIC ")
			case strings.HasPrefix(line, "REPLAY-FAIL "):
				cur.Failures = append(cur.Failures, strings.TrimPrefix(line, "REPLAY-FAIL "))
			case strings.HasPrefix(line, "REPLAY-REACH "):
				cur.Reached = append(cur.Reached, strings.TrimPrefix(line, "REPLAY-REACH "))
			case strings.HasPrefix(line, "REPLAY-END "):
				cur = nil
			}
		}
		if cur != nil {
			// the process died inside this replay
			why := "process crashed"
			for _, line := range strings.Split(string(o), "\n") {
				if strings.HasPrefix(line, "panic: ") || strings.HasPrefix(line, "fatal error: ") {
					why = "process crashed: " + strings.TrimSpace(line)
					break
				}
			}
			cur.Panic = why
		}
		var next []string
		for _, item := range remaining {
			f := item[strings.Index(item, "=")+1:]
			if r := res[f]; r != nil && !r.Ran {
				next = append(next, item)
			}
		}
		if cur == nil || len(next) == len(remaining) {
			break
		}
		remaining = next
	}
	raced := strings.Contains(string(out), "WARNING: DATA RACE")
	for _, r := range res {
		if !r.Ran {
			r.Output = tail(string(out), 2000)
		}
		if raced {
			r.Ran = true
			r.Failures = append(r.Failures, "race: the Go race detector reported a data race")
		}
	}
	return res, nil
}

func tail(s string, n int) string {
	if len(s) > n {
		return s[len(s)-n:]
	}
	return s
}

func pkgNameOf(src []byte) string {
	for _, line := range strings.Split(string(src), "\n") {
		line = strings.TrimSpace(line)
		if strings.HasPrefix(line, "package ") {
			return strings.Fields(line)[1]
		}
	}
	return "main"
}

// ---------- running a property ----------

type Evidence struct {
	PropertyID  string                 `json:"property_id"`
	Tier        string                 `json:"tier"`
	Seed        int64                  `json:"seed"`
	Level       string                 `json:"level"`
	Coverage    map[string]interface{} `json:"coverage"`
	Assumptions []string               `json:"assumptions"`
	WallS       float64                `json:"wall_s"`
	Violations  int                    `json:"violations"`
}

type runResult struct {
	run *Run
	rep *sym.Report
}

// RunProperty executes the check and returns the process exit code.
func RunProperty(id, tier string, seed int64) int {
	t0 := time.Now()
	spec := Registry[id]
	if spec == nil {
		fmt.Printf("unknown property %s\n", id)
		return 2
	}
	prog, err := sym.LoadProgram(filepath.Join(VerifDir, "harness"))
	if err != nil {
		fmt.Printf("BROKEN: cannot load /repo with harness overlays: %v\n", err)
		writeEvidence(spec, tier, seed, nil, nil, nil, []string{"load failure: " + err.Error()}, 0, time.Since(t0), nil)
		return 2
	}
	ctx := &Ctx{Prog: prog, Tier: tier, Seed: seed, Spec: spec}
	var runs []*Run
	if spec.Runs != nil {
		runs = spec.Runs(tier, seed)
	}
	if tier == "thorough" && spec.CrossSolver {
		n := len(runs)
		for i := 0; i < n; i++ {
			r := runs[i]
			if r.NegControl || r.BestEffort || r.H.Cfg.OneShotAll || r.H.Cfg.UFTables {
				continue
			}
			c := *r
			c.H.Solver = "cvc5"
			c.SamplePaths = 0
			c.crossOf = i + 1
			runs = append(runs, &c)
		}
	}
	results := make([]*runResult, len(runs))
	var wg sync.WaitGroup
	sem := make(chan struct{}, 14)
	for i, r := range runs {
		wg.Add(1)
		go func(i int, r *Run) {
			defer wg.Done()
			sem <- struct{}{}
			defer func() { <-sem }()
			h := r.H
			if h.WallBudgetMs == 0 {
				// a run that needs longer than this is reported as an exhausted bound
				// (inconclusive), never as success
				h.WallBudgetMs = 1500000
				if tier == "thorough" {
					h.WallBudgetMs = 2400000
				}
			}
			if r.SamplePaths > 0 {
				h.SampleModels = r.SamplePaths
			}
			rep := prog.Explore(&h)
			results[i] = &runResult{r, rep}
		}(i, r)
	}
	var extra *Extra
	if spec.Custom != nil {
		extra = spec.Custom(ctx)
	}
	wg.Wait()

	var broken []string
	var bestEffortNotes []string
	type pendingViolation struct {
		v    *sym.Violation
		run  *Run
		file string
	}
	var pend []*pendingViolation
	replayByPkg := map[string][]string{}
	sampleFiles := map[string]*ReplayFile{}
	crossAgree := 0
	for _, rr := range results {
		if rr.run.crossOf == 0 {
			continue
		}
		a, b := results[rr.run.crossOf-1].rep, rr.rep
		same := a.Paths == b.Paths && a.Completed == b.Completed && len(a.Violations) == len(b.Violations) && len(a.Reaches) == len(b.Reaches)
		for l, n := range a.Reaches {
			if b.Reaches[l] != n {
				same = false
			}
		}
		if !same {
			broken = append(broken, fmt.Sprintf("%s: z3 and cvc5 disagree on the exploration (paths %d/%d, completed %d/%d, violations %d/%d, reaches %v/%v): encoding or solver suspect", a.Harness, a.Paths, b.Paths, a.Completed, b.Completed, len(a.Violations), len(b.Violations), a.Reaches, b.Reaches))
		} else {
			crossAgree++
		}
	}
	crossAgreeGlobal = crossAgree
	for _, rr := range results {
		rep, r := rr.rep, rr.run
		name := rep.Harness
		if r.crossOf != 0 {
			name += " [cvc5]"
		}
		if r.BestEffort {
			n := len(rep.EngineErrors) + len(rep.BoundsHit) + len(rep.Inconclusive) + len(rep.SolverErrors)
			if n > 0 {
				bestEffortNotes = append(bestEffortNotes, fmt.Sprintf("%s: attempted beyond the claim, undecided (%d open items, e.g. %s)", name, n, firstOf(rep.Inconclusive, rep.BoundsHit, rep.EngineErrors, rep.SolverErrors)))
			} else if len(rep.Violations) == 0 {
				bestEffortNotes = append(bestEffortNotes, fmt.Sprintf("%s: attempted beyond the claim, decided: held (%d paths, %d queries)", name, rep.Paths, rep.Queries))
			}
		} else {
			for _, e := range rep.EngineErrors {
				broken = append(broken, name+": engine error: "+e)
			}
			for _, e := range rep.BoundsHit {
				broken = append(broken, name+": bound exhausted: "+e)
			}
			for _, e := range rep.Inconclusive {
				broken = append(broken, name+": inconclusive: "+e)
			}
			for _, e := range rep.SolverErrors {
				broken = append(broken, name+": solver error: "+e)
			}
		}
		if r.NegControl {
			if len(rep.Violations) == 0 {
				broken = append(broken, name+": negative control produced no violation (assertion not connected to the code under test)")
			}
			continue
		}
		for _, l := range r.ExpectReach {
			if r.BestEffort {
				break
			}
			if rep.Reaches[l] == 0 {
				broken = append(broken, fmt.Sprintf("%s: reach label %q not reached on any path (vacuity guard)", name, l))
			}
		}
		if !r.BestEffort && (rep.Completed < r.MinCompleted || (rep.Completed == 0 && len(rep.Violations) == 0)) {
			broken = append(broken, fmt.Sprintf("%s: only %d completed paths (vacuity guard)", name, rep.Completed))
		}
		seen := map[string]bool{}
		for _, v := range rep.Violations {
			key := v.Kind + "|" + v.Label
			if seen[key] {
				continue
			}
			seen[key] = true
			rf := &ReplayFile{Property: id, Harness: name, Pkg: r.H.Pkg, Func: r.H.Func, Kind: v.Kind, Label: v.Label, Detail: v.Detail, Expect: "fail", Inputs: inputsOf(v.Inputs), Globals: r.H.SetGlobals}
			f := writeReplay(rf)
			pend = append(pend, &pendingViolation{v, r, f})
			if !r.NoReplay {
				replayByPkg[r.H.Pkg] = append(replayByPkg[r.H.Pkg], f)
			}
		}
		for _, s := range rep.Samples {
			rf := &ReplayFile{Property: id, Harness: name, Pkg: r.H.Pkg, Func: r.H.Func, Kind: "sample", Expect: "pass", Reaches: s.Reaches, Inputs: inputsOf(s.Inputs), Globals: r.H.SetGlobals}
			tmpf, _ := os.CreateTemp("", "verif-sample-*.json")
			data, _ := json.Marshal(rf)
			tmpf.Write(data)
			tmpf.Close()
			sampleFiles[tmpf.Name()] = rf
			replayByPkg[r.H.Pkg] = append(replayByPkg[r.H.Pkg], tmpf.Name())
		}
	}
	defer func() {
		for f := range sampleFiles {
			os.Remove(f)
		}
	}()
	// native replays, one go test per package
	native := map[string]*NativeResult{}
	var nmu sync.Mutex
	var nwg sync.WaitGroup
	for pkg, files := range replayByPkg {
		nwg.Add(1)
		go func(pkg string, files []string) {
			defer nwg.Done()
			res, err := NativeReplay(prog, pkg, files, false)
			nmu.Lock()
			defer nmu.Unlock()
			if err != nil {
				broken = append(broken, "native replay failed for "+pkg+": "+err.Error())
				return
			}
			for k, v := range res {
				native[k] = v
			}
		}(pkg, files)
	}
	nwg.Wait()
	validated := 0
	for f, rf := range sampleFiles {
		nr := native[f]
		switch {
		case nr == nil || !nr.Ran:
			out := ""
			if nr != nil {
				out = nr.Output
			}
			broken = append(broken, fmt.Sprintf("%s: native cross-validation did not run: %s", rf.Harness, out))
		case nr.Invalid != "":
			broken = append(broken, fmt.Sprintf("%s: translator validation: model of a completed path is rejected natively (%s)", rf.Harness, nr.Invalid))
		case nr.Panic != "" || len(nr.Failures) > 0:
			broken = append(broken, fmt.Sprintf("%s: translator validation: native run of a path the executor passed fails (%v %s)", rf.Harness, nr.Failures, nr.Panic))
		default:
			want := map[string]bool{}
			for _, l := range rf.Reaches {
				want[l] = true
			}
			got := map[string]bool{}
			for _, l := range nr.Reached {
				got[l] = true
			}
			ok := true
			for l := range want {
				if !got[l] {
					ok = false
				}
			}
			if !ok {
				broken = append(broken, fmt.Sprintf("%s: translator validation: native run reaches %v, executor reached %v", rf.Harness, nr.Reached, rf.Reaches))
			} else {
				validated++
			}
		}
	}
	findings := loadFindings()
	nViol := 0
	var lines []string
	var violSamples []interface{}
	for _, pv := range pend {
		confirmed := false
		why := ""
		if pv.run.NoReplay {
			why = "over-approximating encoding: model is a candidate only"
		} else {
			nr := native[pv.file]
			switch {
			case nr == nil || !nr.Ran:
				why = "native replay did not run"
				if nr != nil {
					why += ": " + nr.Output
				}
			case nr.Invalid != "":
				why = "model rejected natively: " + nr.Invalid
			case pv.v.Kind == "panic":
				confirmed = nr.Panic != ""
				why = "no native panic"
			default:
				for _, f := range nr.Failures {
					if f == pv.v.Label || (pv.v.Kind != "assert" && strings.HasPrefix(f, pv.v.Kind)) {
						confirmed = true
					}
					// alloc and steps are the two faces of one resource budget: a witness
					// that natively exhausts the other one confirms the violation
					if (pv.v.Kind == "alloc" || pv.v.Kind == "steps") && (strings.HasPrefix(f, "alloc") || strings.HasPrefix(f, "steps")) {
						confirmed = true
					}
				}
				if !confirmed && nr.Panic != "" && pv.v.Kind != "assert" {
					confirmed = true
				}
				why = fmt.Sprintf("native run did not fail this assertion (failures: %v panic: %q)", nr.Failures, nr.Panic)
			}
		}
		if !confirmed {
			broken = append(broken, fmt.Sprintf("%s: solver model for %q does not reproduce natively (%s): encoding or stub suspect, replay=%s", pv.v.Harness, pv.v.Label, why, pv.file))
			continue
		}
		known := false
		for _, f := range findings {
			if f.Property == id && f.Status == "known" && f.Harness == pv.v.Harness && f.Label == pv.v.Label {
				known = true
				lines = append(lines, fmt.Sprintf("KNOWN-FINDING: property=%s %s [%s: %s]", id, f.What, pv.v.Harness, pv.v.Label))
			}
		}
		violSamples = append(violSamples, map[string]interface{}{"harness": pv.v.Harness, "label": pv.v.Label, "kind": pv.v.Kind, "detail": pv.v.Detail, "replay": pv.file, "known_finding": known})
		if !known {
			nViol++
			lines = append(lines, fmt.Sprintf("VIOLATION property=%s replay=%s", id, pv.file))
			fmt.Printf("  violated: %s: %s %s\n", pv.v.Harness, pv.v.Label, pv.v.Detail)
		}
	}
	if extra != nil {
		for _, f := range extra.Failures {
			parts := strings.SplitN(f, "|", 2)
			known := false
			for _, kf := range findings {
				if kf.Property == id && kf.Status == "known" && kf.Label == parts[0] {
					known = true
					lines = append(lines, fmt.Sprintf("KNOWN-FINDING: property=%s %s", id, kf.What))
				}
			}
			if !known {
				nViol++
				rf := &ReplayFile{Property: id, Harness: "custom", Func: "custom", Kind: "obligation", Label: parts[0], Detail: f, Expect: "fail"}
				p := ""
				if i := strings.LastIndex(f, "|replay="); i >= 0 {
					p = f[i+8:]
				} else {
					p = writeReplay(rf)
				}
				lines = append(lines, fmt.Sprintf("VIOLATION property=%s replay=%s", id, p))
				fmt.Printf("  violated: %s\n", f)
			}
		}
		for _, inc := range extra.Inconclusive {
			broken = append(broken, "custom: "+inc)
		}
		validated += extra.Validated
	}
	wall := time.Since(t0)
	for _, n := range bestEffortNotes {
		fmt.Println("  " + n)
	}
	bestEffortGlobal = bestEffortNotes
	writeEvidence(spec, tier, seed, results, extra, violSamples, broken, validated, wall, prog)
	for _, l := range lines {
		fmt.Println(l)
	}
	summary(results, extra, wall)
	if nViol > 0 {
		return 1
	}
	if len(broken) > 0 {
		fmt.Printf("BROKEN: %d problems make this run inconclusive (no verdict):\n", len(broken))
		for i, b := range broken {
			if i >= 15 {
				fmt.Printf("  ... and %d more\n", len(broken)-15)
				break
			}
			fmt.Println("  -", b)
		}
		return 2
	}
	fmt.Printf("OK property=%s tier=%s held on everything explored (%.1fs)\n", id, tier, wall.Seconds())
	return 0
}

func summary(results []*runResult, extra *Extra, wall time.Duration) {
	for _, rr := range results {
		r := rr.rep
		tag := ""
		if rr.run.NegControl {
			tag = " [negative control]"
		}
		fmt.Printf("  %-60s paths=%d completed=%d queries=%d (unsat %d, sat %d, unknown %d) violations=%d solver=%.1fs wall=%.1fs%s\n",
			r.Harness, r.Paths, r.Completed, r.Queries, r.Unsat, r.Sat, r.Unknown, len(r.Violations), r.SolverTime.Seconds(), r.Wall.Seconds(), tag)
	}
	if extra != nil {
		fmt.Printf("  custom obligations: %d/%d discharged, queries=%d solver=%.1fs\n", extra.Discharged, extra.Obligations, extra.Queries, extra.SolverTime.Seconds())
	}
}

var crossAgreeGlobal int

func solverName(r *Run) string {
	switch {
	case r.H.Cfg.OneShotAll:
		return "portfolio z3 4.8.12 / cvc5 / z3 5.1 (fresh process per query)"
	case r.H.Solver != "":
		return r.H.Solver
	}
	if r.H.Cfg.OneShotAsserts {
		return "z3 4.8.12 (feasibility), portfolio (assertions)"
	}
	return "z3 4.8.12"
}

func writeEvidence(spec *Spec, tier string, seed int64, results []*runResult, extra *Extra, violSamples []interface{}, broken []string, validated int, wall time.Duration, prog *sym.Program) {
	ev := &Evidence{PropertyID: spec.ID, Tier: tier, Seed: seed, Level: spec.Level, Coverage: map[string]interface{}{}, WallS: wall.Seconds()}
	cov := ev.Coverage
	funcs := map[string]bool{}
	assum := map[string]bool{}
	var queries, unsat, sat, unknown, paths, completed, decisions, asserts, trivial, sympaths int
	var solverT time.Duration
	var samples []interface{}
	reaches := map[string]int{}
	var harnessRows []interface{}
	negOK := 0
	for _, rr := range results {
		r := rr.rep
		queries += r.Queries
		unsat += r.Unsat
		sat += r.Sat
		unknown += r.Unknown
		paths += r.Paths
		completed += r.Completed
		decisions += r.Decisions
		solverT += r.SolverTime
		if !rr.run.NegControl {
			sympaths += r.SymbolicPaths
			asserts += r.Asserts
			trivial += r.TrivialAsserts
		} else if len(r.Violations) > 0 {
			negOK++
		}
		for f := range r.Funcs {
			if strings.Contains(f, "mandykoh/prism") && !strings.Contains(f, "verif") && !strings.Contains(f, "Verif") {
				funcs[f] = true
			}
		}
		for _, a := range r.Assumptions {
			assum[a] = true
		}
		for l, n := range r.Reaches {
			reaches[r.Harness+":"+l] += n
		}
		harnessRows = append(harnessRows, map[string]interface{}{
			"harness": r.Harness, "paths": r.Paths, "completed": r.Completed, "aborted_infeasible": r.Aborted,
			"queries": r.Queries, "unsat": r.Unsat, "sat": r.Sat, "unknown": r.Unknown,
			"asserts_discharged_by_solver": r.Asserts - r.TrivialAsserts, "asserts_syntactically_identical": r.TrivialAsserts,
			"symbolic_inputs": r.Inputs, "max_path_ssa_instructions": r.MaxPathSteps, "solver_s": r.SolverTime.Seconds(),
			"negative_control": rr.run.NegControl, "violations": len(r.Violations), "solver": solverName(rr.run),
		})
		for i, s := range r.Samples {
			if i >= 2 {
				break
			}
			samples = append(samples, map[string]interface{}{"harness": r.Harness, "kind": "model of a completed path (cross-validated natively)", "reaches": s.Reaches, "inputs": compactInputs(s.Inputs)})
		}
	}
	samples = append(samples, violSamples...)
	if extra != nil {
		queries += extra.Queries
		solverT += extra.SolverTime
		samples = append(samples, extra.Samples...)
		for _, f := range extra.Funcs {
			funcs[f] = true
		}
		for _, a := range extra.Assumptions {
			assum[a] = true
		}
		cov["obligations"] = extra.Obligations
		cov["discharged"] = extra.Discharged
	}
	if len(samples) == 0 {
		samples = append(samples, map[string]interface{}{"note": "no samples (run was broken before exploration)"})
	}
	cov["states"] = max(paths, 1)
	cov["transitions"] = max(decisions, 1)
	cov["traces_validated_against_impl"] = validated
	cov["samples"] = samples
	cov["evaluations"] = max(queries, 1)
	nontriv := asserts - trivial + sympaths
	if extra != nil {
		nontriv += extra.Discharged
	}
	cov["distinct_symbolic_paths"] = sympaths
	cov["assertions_discharged_by_solver"] = asserts - trivial
	cov["assertions_syntactically_identical"] = trivial
	cov["distinct_nontrivial"] = nontriv
	cov["rule"] = "evaluations = SMT queries discharged (feasibility + assertion + obligation queries); distinct_nontrivial = distinct feasible paths whose path condition mentions at least one symbolic variable (each carries the engine-level obligations: no escaping panic, budgets, bounds) + distinct (harness, path, assertion) obligations that reached the solver with at least one symbolic variable + discharged ground/table/scenario obligations; assertions whose two sides simplified to the identical term are counted separately (assertions_syntactically_identical) and not included"
	cov["explanation"] = spec.Explanation
	cov["paths_explored"] = paths
	cov["paths_completed"] = completed
	cov["queries"] = map[string]int{"total": queries, "unsat": unsat, "sat": sat, "unknown": unknown}
	cov["solver_time_s"] = solverT.Seconds()
	cov["harnesses"] = harnessRows
	cov["reach_labels"] = reaches
	cov["negative_controls_violated_as_expected"] = negOK
	if broken == nil {
		broken = []string{}
	}
	cov["problems"] = broken
	cov["attempted_beyond_claim"] = bestEffortGlobal
	if tier == "thorough" && spec.CrossSolver {
		cov["cross_solver"] = fmt.Sprintf("every regular run repeated with cvc5 1.0.x: %d of them agree with z3 4.8.12 on feasible paths, reach labels and violations", crossAgreeGlobal)
	}
	var fl []string
	for f := range funcs {
		fl = append(fl, f)
	}
	sort.Strings(fl)
	cov["functions_encoded"] = fl
	if spec.Bounds != nil {
		cov["bounds"] = spec.Bounds(tier)
	}
	if extra != nil && extra.Bounds != nil {
		cov["custom_bounds"] = extra.Bounds
	}
	cov["exhaustive"] = false
	cov["encoding"] = "regenerated from /repo's working tree on this run (go/packages + go/ssa, harness overlays)"
	if prog != nil {
		cov["load_time_s"] = prog.LoadTime.Seconds()
	}
	for _, a := range spec.Assumptions {
		assum[a] = true
	}
	assum["gosym's encoding of go/ssa (cross-validated each run by replaying sampled path models natively: traces_validated_against_impl) and the SMT solver (z3 4.8.12) are trusted"] = true
	assum["everything outside the stated bounds (coverage.bounds) is outside the claim"] = true
	ev.Assumptions = []string{}
	for a := range assum {
		ev.Assumptions = append(ev.Assumptions, a)
	}
	sort.Strings(ev.Assumptions)
	ev.Violations = 0
	for _, v := range violSamples {
		if m, ok := v.(map[string]interface{}); ok && m["known_finding"] != true {
			ev.Violations++
		}
	}
	os.MkdirAll(filepath.Join(VerifDir, "evidence"), 0o755)
	data, _ := json.MarshalIndent(ev, "", " ")
	os.WriteFile(filepath.Join(VerifDir, "evidence", spec.ID+".json"), data, 0o644)
}

func compactInputs(in []sym.InputVal) string {
	var sb strings.Builder
	for i, v := range in {
		if i > 0 && v.Tag == "byte" && in[i-1].Tag == "byte" {
			fmt.Fprintf(&sb, "%02x", v.Val.Bits)
			continue
		}
		if i > 0 {
			sb.WriteByte(' ')
		}
		if v.Tag == "byte" {
			fmt.Fprintf(&sb, "bytes:%02x", v.Val.Bits)
		} else {
			fmt.Fprintf(&sb, "%s=%d", v.Tag, v.Val.Bits)
		}
		if sb.Len() > 1500 {
			sb.WriteString("...")
			break
		}
	}
	return sb.String()
}

var bestEffortGlobal []string

func firstOf(lists ...[]string) string {
	for _, l := range lists {
		if len(l) > 0 {
			s := l[0]
			if len(s) > 160 {
				s = s[:160]
			}
			return s
		}
	}
	return ""
}
