package checks

import "gosym/sym"

func c07N(tier string) map[string]int64 {
	if tier == "thorough" {
		return map[string]int64{"png": 34, "jpeg": 18, "webp": 48, "auto": 16, "pngF": 28, "jpegF": 14, "webpF": 34, "autoF": 14}
	}
	return map[string]int64{"png": 28, "jpeg": 14, "webp": 40, "auto": 12, "pngF": 22, "jpegF": 11, "webpF": 30, "autoF": 11}
}

func init() {
	Register(&Spec{
		ID:          "C07",
		Level:       "model_checking",
		Explanation: "bounded symbolic execution of the four Load functions on (a) N fully symbolic bytes for every truncation length 0..N, (b) the same with an injected I/O error at every position, three delivery chunk sizes and data-with-error delivery, (c) every truncation of well-formed skeleton files with symbolic fields; on every feasible path (success, parse error, recovered panic) the returned stream is drained by harness code and must be non-nil, terminate, equal the source bytes delivered (term-for-term) and surface the injected error. Path feasibility is decided by the solver; the byte equality is syntactic identity of the copied terms on each path",
		Bounds: func(tier string) map[string]interface{} {
			n := c07N(tier)
			return map[string]interface{}{
				"arbitrary_bytes_N": map[string]int64{"pngmeta": n["png"], "jpegmeta": n["jpeg"], "webpmeta": n["webp"], "autometa": n["auto"]},
				"fault_N":           map[string]int64{"pngmeta": n["pngF"], "jpegmeta": n["jpegF"], "webpmeta": n["webpF"], "autometa": n["autoF"]},
				"fault_positions":   "every e in [0,N] and no fault",
				"delivery":          "chunk sizes {unlimited,1,3} x final data with/without error",
				"skeletons":         "C05 skeletons (k<=1 ancillary), every truncation length",
				"zlib":              "stubbed (harness verifZlibStub): inflate output is 5 fresh symbolic bytes, or open error, or error after output",
				"outside":           "inputs longer than N (exponential path growth: JPEG 1.6^N), seed files up to 8 KiB, more than one source fault per run",
			}
		},
		Runs: func(tier string, seed int64) []*Run {
			n := c07N(tier)
			g := func(v int64) map[string]int64 { return map[string]int64{"verifC07N": v} }
			return []*Run{
				{H: sym.Harness{Pkg: "meta/pngmeta", Func: "VerifHarness_C07_PNG_Arbitrary", SetGlobals: g(n["png"])}, ExpectReach: []string{"drained"}, SamplePaths: 4},
				{H: sym.Harness{Pkg: "meta/jpegmeta", Func: "VerifHarness_C07_JPEG_Arbitrary", SetGlobals: g(n["jpeg"])}, ExpectReach: []string{"drained"}, SamplePaths: 4},
				{H: sym.Harness{Pkg: "meta/webpmeta", Func: "VerifHarness_C07_WebP_Arbitrary", SetGlobals: g(n["webp"])}, ExpectReach: []string{"drained"}, SamplePaths: 4},
				{H: sym.Harness{Pkg: "meta/autometa", Func: "VerifHarness_C07_Auto_Arbitrary", SetGlobals: g(n["auto"])}, ExpectReach: []string{"drained"}, SamplePaths: 4},
				{H: sym.Harness{Pkg: "meta/pngmeta", Func: "VerifHarness_C07_PNG_Fault", SetGlobals: g(n["pngF"])}, ExpectReach: []string{"drained"}, SamplePaths: 4},
				{H: sym.Harness{Pkg: "meta/jpegmeta", Func: "VerifHarness_C07_JPEG_Fault", SetGlobals: g(n["jpegF"])}, ExpectReach: []string{"drained"}, SamplePaths: 4},
				{H: sym.Harness{Pkg: "meta/webpmeta", Func: "VerifHarness_C07_WebP_Fault", SetGlobals: g(n["webpF"])}, ExpectReach: []string{"drained"}, SamplePaths: 4},
				{H: sym.Harness{Pkg: "meta/autometa", Func: "VerifHarness_C07_Auto_Fault", SetGlobals: g(n["autoF"])}, ExpectReach: []string{"drained"}, SamplePaths: 4},
				{H: sym.Harness{Pkg: "meta/pngmeta", Func: "VerifHarness_C07_PNG_Skeleton"}, ExpectReach: []string{"drained"}, SamplePaths: 4},
				{H: sym.Harness{Pkg: "meta/jpegmeta", Func: "VerifHarness_C07_JPEG_Skeleton"}, ExpectReach: []string{"drained"}, SamplePaths: 4},
				{H: sym.Harness{Pkg: "meta/webpmeta", Func: "VerifHarness_C07_WebP_Skeleton"}, ExpectReach: []string{"drained"}, SamplePaths: 4},
				{H: sym.Harness{Pkg: "meta/autometa", Func: "VerifHarness_C07_Auto_Skeleton"}, ExpectReach: []string{"drained"}, SamplePaths: 4},
				{H: sym.Harness{Pkg: "meta/autometa", Func: "VerifHarness_C07_Auto_Large", Workers: 14}, ExpectReach: []string{"drained"}, SamplePaths: 2},
				{H: sym.Harness{Pkg: "meta/pngmeta", Func: "VerifHarness_C07_NegControl"}, NegControl: true},
			}
		},
	})
}
