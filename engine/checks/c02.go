package checks

import "gosym/sym"

func init() {
	Register(&Spec{
		ID:          "C02",
		Level:       "model_checking",
		Explanation: "composition of five solver-decided parts over the real code. L1 (bit-precise IEEE-754, every float32 bit pattern): NormalisedTo8/9/16Bit return 0 for x<=0 (incl. -0, -inf), the maximum for x>=1 (incl. +inf), never exceed the maximum for any input incl. NaN (so the table index is in range), and cannot panic. M (reals with rounding-error variables + monotonicity of IEEE rounding + integer truncation): 0<a<=b<1 implies N(a)<=N(b); with L1 this gives monotonicity for all pairs. L2 (reals with rounding-error variables): |N(x)-S*x| <= 0.5+s_N on (0,1). W (bit-precise, tables as uninterpreted functions refined on demand): To8Bit(x)=LUT8[N9(x)], To16Bit(x)=LUT16[N16(x)] on the sync.Once path and the fast path, tables have 512/65536 entries, and ToNRGBA/ToRGBA/ToRGBA64 of all four spaces apply the right encoder to the right (premultiplied) channel, Display P3 using srgb's. T (ground, exhaustive, exact integer arithmetic): every entry of the six encode tables built by the executor is within 0.5+s_T codes of max*OETF(k/S) for the published OETFs, end points exact, non-decreasing. L1+M+L2+T+W give the property as formalised in DESIGN 3.1",
		Bounds: func(tier string) map[string]interface{} {
			return map[string]interface{}{"inputs": "all float32 values (L1, W: symbolic (_ FloatingPoint 8 24)); (0,1) for M and L2 as reals", "tables": "all 512 + 65536 entries x 3 curves", "slack": "s_N = S*2^-23 + 2^-20, s_T = max*2^-24 + max*2^-23 + 2^-10 (fixed a priori, DESIGN 3.1)", "outside": "float->int conversion of NaN/out-of-range values is modelled as gc/amd64 does it (CVTTSS2SL/SQ integer indefinite); no FMA contraction"}
		},
		Runs: func(tier string, seed int64) []*Run {
			fp := sym.Config{OneShotAsserts: true}
			rerr := sym.Config{Float: sym.FloatRErr, MonotoneRounding: true, OneShotAsserts: true}
			wiring := sym.Config{UFTables: true, OneShotAsserts: true, MergeFuncs: quantiserMerge}
			runs := []*Run{
				{H: sym.Harness{Pkg: "linear", Func: "VerifHarness_C02_Quantiser", Cfg: fp, TimeoutMs: 120000}, ExpectReach: []string{"quantised"}, SamplePaths: 3},
				{H: sym.Harness{Pkg: "linear", Func: "VerifHarness_C02_MonotoneInterior", Cfg: rerr, TimeoutMs: 120000}, ExpectReach: []string{"compared-interior"}},
				{H: sym.Harness{Pkg: "linear", Func: "VerifHarness_C02_Accuracy", Cfg: sym.Config{Float: sym.FloatRErr, OneShotAsserts: true}, TimeoutMs: 120000}, ExpectReach: []string{"measured"}},
				{H: sym.Harness{Pkg: "linear", Func: "VerifHarness_C02_NegControl", Cfg: fp}, NegControl: true},
				{H: sym.Harness{Pkg: "displayp3", Func: "VerifHarness_C02_Wiring", Cfg: wiring, Workers: 1, TimeoutMs: 120000}, ExpectReach: []string{"wired"}, SamplePaths: 1},
				{H: sym.Harness{Pkg: "displayp3", Func: "VerifHarness_C02_Independent", Cfg: wiring, Workers: 6, TimeoutMs: 120000}, ExpectReach: []string{"independent"}, SamplePaths: 1},
			}
			for _, p := range curvePkgs {
				runs = append(runs, &Run{H: sym.Harness{Pkg: p, Func: "VerifHarness_C02_Wiring", Cfg: wiring, Workers: 1, TimeoutMs: 120000}, ExpectReach: []string{"wired"}, SamplePaths: 1})
				runs = append(runs, &Run{H: sym.Harness{Pkg: p, Func: "VerifHarness_Tables", Workers: 1}, SamplePaths: 1, MinCompleted: 1})
			}
			return runs
		},
		Custom: func(ctx *Ctx) *Extra { return tableCustom(ctx, false) },
	})
}
