package checks

import "gosym/sym"

func init() {
	Register(&Spec{
		ID:    "C10",
		Level: "model_checking", CrossSolver: true,
		Explanation: "bounded symbolic execution of linear.TransformImageColor for concrete geometries with every byte of source, destination and destination-parent storage symbolic and a per-colour function with symbolic keys (XOR with eight symbolic key bytes: arbitrary and injective per channel): the destination parent's storage after the call is asserted equal, byte for byte, to a reference obtained by storing dst.ColorModel's conversion of f(src.At(p)) at dst.Min+(p-src.Min) with the standard library's Set on a copy, which also proves every other byte unchanged. In-place use is compared with the function of the original pixels. The eight public image transforms are checked to be TransformImageColor with their package's own per-colour function (those functions replaced by uninterpreted functions)",
		Bounds: func(tier string) map[string]interface{} {
			if tier == "thorough" {
				return map[string]interface{}{"product": "3 geometries x 11 source types (RGBA,NRGBA,RGBA64,NRGBA64,Gray,Gray16,CMYK,Paletted,Alpha,YCbCr444,YCbCr422) x 5 destination types (RGBA64,RGBA,NRGBA,NRGBA64,opaque wrapper) x opaque source wrapper x 3 destination origins x 6 parallelism values", "inplace": "4 types x 3 geometries x 5 parallelism values"}
			}
			return map[string]interface{}{"quick_matrix_1": "all 11 source x 5 destination types (+ opaque source wrapper) on the 2x1 sub-image geometry", "quick_matrix_2": "3 geometries x 3 destination origins x 6 parallelism values on RGBA64->RGBA64 (fast path), Gray->RGBA, NRGBA->opaque", "inplace": "4 types x 3 geometries x 5 parallelism values", "outside": "images larger than 2x2, the full product (thorough tier), goroutine scheduling (C11)"}
		},
		Runs: func(tier string, seed int64) []*Run {
			hooks := map[string]sym.HookFn{}
			for _, p := range []string{"srgb", "adobergb", "prophotorgb", "displayp3"} {
				for _, f := range []string{"LineariseColor", "EncodeColor"} {
					name := sym.ModPath + "/" + p + "." + f
					hooks[name] = sym.UFColorHook(p + "." + f)
				}
			}
			runs := []*Run{
				{H: sym.Harness{Pkg: "linear", Func: "VerifHarness_C10_InPlace", Workers: 8}, ExpectReach: []string{"transformed-inplace"}, SamplePaths: 3},
				{H: sym.Harness{Pkg: "displayp3", Func: "VerifHarness_C10_Wiring", Hooks: hooks}, ExpectReach: []string{"wired"}, SamplePaths: 3},
				{H: sym.Harness{Pkg: "linear", Func: "VerifHarness_C10_NegControl"}, NegControl: true},
			}
			if tier == "thorough" {
				runs = append(runs, &Run{H: sym.Harness{Pkg: "linear", Func: "VerifHarness_C10_Transform", Workers: 14, SetGlobals: map[string]int64{"verifC10Mode": 0}}, ExpectReach: []string{"transformed"}, SamplePaths: 6})
			} else {
				runs = append(runs,
					&Run{H: sym.Harness{Pkg: "linear", Func: "VerifHarness_C10_Transform", Workers: 14, SetGlobals: map[string]int64{"verifC10Mode": 1}}, ExpectReach: []string{"transformed"}, SamplePaths: 4},
					&Run{H: sym.Harness{Pkg: "linear", Func: "VerifHarness_C10_Transform", Workers: 14, SetGlobals: map[string]int64{"verifC10Mode": 2}}, ExpectReach: []string{"transformed"}, SamplePaths: 4})
			}
			return runs
		},
	})
}
