package checks

import "gosym/sym"

func init() {
	Register(&Spec{
		ID:          "C08",
		Level:       "model_checking",
		Explanation: "two-run (2-safety) bounded symbolic execution: the same symbolic content is loaded once from a fully delivering reader and once from a reader delivering in chunks of 1, 2, 3 or 7 bytes with the final data optionally returned together with io.EOF; metadata fields, ICC bytes, ICC error-ness and the success/error outcome of both runs are asserted equal on every feasible path. The ICC profile reader is compared between bytes.Reader and bufio.Reader over a chunked source",
		Bounds: func(tier string) map[string]interface{} {
			return map[string]interface{}{
				"schedules": "fixed chunk sizes {1,2,3,7} x data+EOF in one call {no,yes}; ICC additionally chunk 100",
				"inputs":    "C05 skeletons with symbolic fields (k<=1 ancillary chunks/segments; WebP incl. VP8X+ICCP), arbitrary bytes N=24 (PNG), 11 (JPEG), 14 (WebP)",
				"icc":       "128 symbolic header bytes + one tag of 6 symbolic bytes",
				"zlib":      "stub, deterministic in its input",
				"outside":   "random segment sizes, sizes 4095/4096/4097 (need inputs beyond the symbolic bound), unit-level arbitrary bufio state",
			}
		},
		Runs: func(tier string, seed int64) []*Run {
			g := func(v int64) map[string]int64 { return map[string]int64{"verifC08N": v} }
			jn, pn := int64(11), int64(24)
			if tier == "thorough" {
				jn, pn = 14, 30
			}
			return []*Run{
				{H: sym.Harness{Pkg: "meta/pngmeta", Func: "VerifHarness_C08_NegControl"}, NegControl: true},
				{H: sym.Harness{Pkg: "meta/pngmeta", Func: "VerifHarness_C08_PNG_Arbitrary", SetGlobals: g(pn), Workers: 14}, ExpectReach: []string{"both-loaded"}, SamplePaths: 3},
				{H: sym.Harness{Pkg: "meta/pngmeta", Func: "VerifHarness_C08_PNG_Skeleton"}, ExpectReach: []string{"both-loaded"}, SamplePaths: 3},
				{H: sym.Harness{Pkg: "meta/jpegmeta", Func: "VerifHarness_C08_JPEG_Arbitrary", SetGlobals: g(jn)}, ExpectReach: []string{"both-loaded"}, SamplePaths: 3},
				{H: sym.Harness{Pkg: "meta/jpegmeta", Func: "VerifHarness_C08_JPEG_Skeleton"}, ExpectReach: []string{"both-loaded"}, SamplePaths: 3},
				{H: sym.Harness{Pkg: "meta/webpmeta", Func: "VerifHarness_C08_WebP_Arbitrary", SetGlobals: g(14)}, ExpectReach: []string{"both-loaded"}, SamplePaths: 3},
				{H: sym.Harness{Pkg: "meta/webpmeta", Func: "VerifHarness_C08_WebP_Skeleton"}, ExpectReach: []string{"both-loaded"}, SamplePaths: 3},
				{H: sym.Harness{Pkg: "meta/autometa", Func: "VerifHarness_C08_Auto_Skeleton"}, ExpectReach: []string{"both-loaded"}, SamplePaths: 3},
				{H: sym.Harness{Pkg: "meta/icc", Func: "VerifHarness_C08_ICC"}, ExpectReach: []string{"both-read"}, SamplePaths: 3},
			}
		},
	})
}
