package checks

import (
	"fmt"
	"sync"

	"gosym/sym"
)

// table lemma for C14 (4): T16[r] <= r/65535 for every entry of the three decode tables.
func c14Custom(ctx *Ctx) *Extra {
	ex := &Extra{Bounds: map[string]interface{}{}}
	var all []obligation
	var mu sync.Mutex
	var wg sync.WaitGroup
	for _, pkg := range curvePkgs {
		wg.Add(1)
		go func(pkg string) {
			defer wg.Done()
			ct, _, err := extractTables(ctx.Prog, pkg)
			mu.Lock()
			defer mu.Unlock()
			if err != nil {
				ex.Inconclusive = append(ex.Inconclusive, "table extraction: "+err.Error())
				return
			}
			for r, f := range ct.T16 {
				all = append(all, obligation{fmt.Sprintf("%s T16[%d] <= %d/65535 (premultiplied table lemma)", pkg, r, r), fmt.Sprintf("(<= %s (/ %d.0 65535.0))", realLit(f), r)})
			}
			for r, f := range ct.T16 {
				if r%4096 == 0 {
					all = append(all, obligation{fmt.Sprintf("%s T16[%d] >= 0", pkg, r), fmt.Sprintf("(>= %s 0.0)", realLit(f))})
				}
			}
		}(pkg)
	}
	wg.Wait()
	if len(ex.Inconclusive) > 0 {
		return ex
	}
	st := dischargeGround(all, 4000, 300)
	ex.Obligations, ex.Discharged, ex.Queries, ex.SolverTime, ex.Samples = st.Obligations, st.Discharged, st.Queries, st.Time, st.Samples
	for _, f := range st.Failed {
		ex.Failures = append(ex.Failures, f+"|decode table entry exceeds its code: a premultiplied channel could exceed alpha after linearisation")
	}
	for _, u := range st.Unknown {
		ex.Inconclusive = append(ex.Inconclusive, "ground obligation undecided: "+u)
	}
	ex.Assumptions = append(ex.Assumptions, "premultiplied validity is composed from the ground table lemma T16[r] <= r/65535 (all 3 x 65536 entries) and the real-arithmetic obligation over an abstract table value t <= r/65535")
	return ex
}

func init() {
	Register(&Spec{
		ID:          "C14",
		Level:       "model_checking",
		Explanation: "(1) bit-precise, all 65536 / 256 alphas as one symbolic value: NormalisedTo16Bit(float32(A)/65535)==A and the 8-bit twin. (2) wiring per colour space (bit-precise floats, tables as uninterpreted functions): every constructor returns alpha exactly A/max (bit pattern), transparent premultiplied/generic pixels decode to the zero colour, LineariseColor and EncodeColor leave the alpha channel bit-identical for every colour, opaque colours give identical results through the NRGBA, RGBA and generic constructors. (3) premultiplied validity: for each alpha a (one solver scope each) and every channel r<=a as a symbolic integer, the real code RGBFromEncoded -> ToLinearRGBA64 with an abstract table value t<=r/65535 yields a channel <= a (reals with rounding-error variables, integer truncation); the table lemma T16[r]<=r/65535 is discharged for all 3x65536 entries as ground obligations. Encode-side clipping and rounding of alpha for every float32 is C02's quantiser result",
		Bounds: func(tier string) map[string]interface{} {
			al := "every 64th alpha plus 1..4 and 65530..65535 (1033 values), each with all r<=a"
			if tier == "thorough" {
				al = "every 8th alpha plus 1..4 and 65530..65535 (8201 values), each with all r<=a (all 65535 alphas would take about 1.5 h of solver time on this machine: outside the registered bound)"
			}
			return map[string]interface{}{"alpha_roundtrip": "all 2^16 and 2^8 alphas", "premultiplied": al, "wiring": "symbolic 8/16-bit channels and alphas, 4 spaces", "outside": "ColorFromNRGBA keeps the colour of a transparent non-premultiplied pixel (not required to be zero: see DESIGN), 8-bit premultiplied constructor validity"}
		},
		Runs: func(tier string, seed int64) []*Run {
			fp := sym.Config{OneShotAsserts: true}
			wiring := sym.Config{UFTables: true, OneShotAsserts: true, MergeFuncs: quantiserMerge}
			rerr := sym.Config{Float: sym.FloatRErr, IntInputsAsReal: true, MergeFuncs: quantiserMerge}
			step := int64(64)
			if tier == "thorough" {
				step = 8
			}
			runs := []*Run{
				{H: sym.Harness{Pkg: "linear", Func: "VerifHarness_C14_AlphaRoundTrip", Cfg: fp, TimeoutMs: 300000}, ExpectReach: []string{"alpha-roundtrip"}, SamplePaths: 2},
				{H: sym.Harness{Pkg: "linear", Func: "VerifHarness_C14_NegControl", Cfg: fp}, NegControl: true},
			}
			for i := 0; i < 16; i++ {
				lo, hi := int64(1+i*4096), int64(1+(i+1)*4096)
				if hi > 65536 {
					hi = 65536
				}
				runs = append(runs, &Run{H: sym.Harness{Pkg: "linear", Func: "VerifHarness_C14_Premultiplied", Cfg: rerr, Workers: 1, TimeoutMs: 120000,
					SetGlobals: map[string]int64{"verifC14Lo": lo, "verifC14Hi": hi, "verifC14Step": step}}, ExpectReach: []string{"premultiplied"}})
			}
			for _, p := range []string{"srgb", "adobergb", "prophotorgb", "displayp3"} {
				runs = append(runs, &Run{H: sym.Harness{Pkg: p, Func: "VerifHarness_C14_Wiring", Cfg: wiring, Workers: 4, TimeoutMs: 300000}, ExpectReach: []string{"c14-wired"}, SamplePaths: 1})
			}
			return runs
		},
		Custom: c14Custom,
	})
}
