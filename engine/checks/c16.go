package checks

import "gosym/sym"

func init() {
	Register(&Spec{
		ID:    "C16",
		Level: "model_checking", CrossSolver: true,
		Explanation: "bounded symbolic execution of icc.ProfileReader.ReadProfile on 128 fully symbolic header bytes (all 2^1024 headers with 'acsp' in one query per field) followed by a minimal concrete tag table; every Header field is asserted equal to the big-endian value at its ICC.1:2010 Table 17 offset as a bit-vector identity",
		Bounds: func(tier string) map[string]interface{} {
			return map[string]interface{}{"header_bytes_symbolic": 128, "tag_table": "concrete, one 4-byte tag", "loops": "none over symbolic data", "outside": "tag table contents (C17), fmt %d rendering, time.Date normalisation"}
		},
		Runs: func(tier string, seed int64) []*Run {
			return []*Run{
				{H: sym.Harness{Pkg: "meta/icc", Func: "VerifHarness_C16_Header"}, ExpectReach: []string{"header-parsed"}, SamplePaths: 1},
				{H: sym.Harness{Pkg: "meta/icc", Func: "VerifHarness_C16_BadSignature"}, ExpectReach: []string{"bad-signature"}, SamplePaths: 1},
				{H: sym.Harness{Pkg: "meta/icc", Func: "VerifHarness_C16_NegControl"}, NegControl: true},
			}
		},
	})
}
