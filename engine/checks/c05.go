package checks

import "gosym/sym"

func init() {
	Register(&Spec{
		ID:    "C05",
		Level: "model_checking", CrossSolver: true,
		Explanation: "bounded symbolic execution of pngmeta/jpegmeta/webpmeta/autometa.Load on skeleton files whose layout (chunk/segment lengths and count) is concrete and whose every field and payload byte is symbolic: one solver query per metadata field proves md.PixelWidth/PixelHeight/BitsPerComponent/Format equal the container specification's bytes for all values of the dimension fields, colour type, bit depth, interlace, sampling factors, marker kinds and ancillary chunk types at once",
		Bounds: func(tier string) map[string]interface{} {
			return map[string]interface{}{
				"png":      "signature, IHDR(13 symbolic bytes + symbolic CRC), k<=2 ancillary chunks (symbolic type not in {IHDR,iCCP,IDAT,IEND}, length in {0,1,5}, symbolic payload/CRC), IDAT start",
				"jpeg":     "SOI, k<=2 segments (marker symbolic in APP0-15/COM/DQT/DHT/DRI, payload length in {0,1,4}), SOF0|SOF2 with Nf in {1,3,4} (all frame-header bytes symbolic), SOS",
				"webp":     "VP8 (30 bytes + {0,5,10} trailing), VP8L (25 bytes + trailing), VP8X without ICC flag (30 bytes + trailing); RIFF size field, frame tag, scale bits, alpha/version bits symbolic",
				"auto":     "same skeletons through autometa.Load with k<=1",
				"thorough": "k<=3 ancillary chunks/segments", "outside": "more than 2 (thorough 3) ancillary chunks/segments, payloads longer than 5 bytes, multi-SOF files, DecodeConfig cross-check of the standard decoders (the oracle here is the byte layout of the container specifications)",
			}
		},
		Runs: func(tier string, seed int64) []*Run {
			k := map[string]int64{"verifC05K": 3}
			if tier == "thorough" {
				k = map[string]int64{"verifC05K": 4}
			}
			return []*Run{
				{H: sym.Harness{Pkg: "meta/webpmeta", Func: "VerifHarness_C05_VP8"}, ExpectReach: []string{"vp8-parsed"}, SamplePaths: 2},
				{H: sym.Harness{Pkg: "meta/webpmeta", Func: "VerifHarness_C05_VP8L"}, ExpectReach: []string{"vp8l-parsed"}, SamplePaths: 2},
				{H: sym.Harness{Pkg: "meta/webpmeta", Func: "VerifHarness_C05_VP8X"}, ExpectReach: []string{"vp8x-parsed"}, SamplePaths: 2},
				{H: sym.Harness{Pkg: "meta/pngmeta", Func: "VerifHarness_C05_PNG", SetGlobals: k, Workers: 14}, ExpectReach: []string{"png-parsed"}, SamplePaths: 3},
				{H: sym.Harness{Pkg: "meta/pngmeta", Func: "VerifHarness_C05_PNG_ICC", Workers: 6}, ExpectReach: []string{"png-icc-parsed"}, SamplePaths: 1},
				{H: sym.Harness{Pkg: "meta/pngmeta", Func: "VerifHarness_C05_PNG_Big", SetGlobals: map[string]int64{"verifC05K": 2}, Workers: 8}, ExpectReach: []string{"png-parsed"}, SamplePaths: 1},
				{H: sym.Harness{Pkg: "meta/jpegmeta", Func: "VerifHarness_C05_JPEG_Big", SetGlobals: map[string]int64{"verifC05K": 2}, Workers: 8}, ExpectReach: []string{"jpeg-parsed"}, SamplePaths: 1},
				{H: sym.Harness{Pkg: "meta/jpegmeta", Func: "VerifHarness_C05_JPEG", SetGlobals: k, Workers: 14}, ExpectReach: []string{"jpeg-parsed"}, SamplePaths: 3},
				{H: sym.Harness{Pkg: "meta/autometa", Func: "VerifHarness_C05_AutoPNG"}, ExpectReach: []string{"auto-png"}, SamplePaths: 1},
				{H: sym.Harness{Pkg: "meta/autometa", Func: "VerifHarness_C05_AutoJPEG"}, ExpectReach: []string{"auto-jpeg"}, SamplePaths: 1},
				{H: sym.Harness{Pkg: "meta/autometa", Func: "VerifHarness_C05_AutoWebP"}, ExpectReach: []string{"auto-webp"}, SamplePaths: 3},
				{H: sym.Harness{Pkg: "meta/webpmeta", Func: "VerifHarness_C05_NegControl"}, NegControl: true},
			}
		},
	})
}
