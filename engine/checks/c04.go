package checks

import "gosym/sym"

func init() {
	rerr := sym.Config{Float: sym.FloatRErr, OneShotAsserts: true}
	Register(&Spec{
		ID:          "C04",
		Level:       "model_checking",
		Explanation: "the documented pipeline is decomposed into stages whose contracts are each decided on the real code: decode = table entry within 3e-7 of the published EOTF (C01), encode = clipped/monotone/within 0.5+s_T codes of the published OETF at a point within half a table step (C02), alpha passes through exactly (C14: N8(float32(A)/255)==A for all 256 alphas). C04's own obligation is the linear stage: for each of the 16 ordered pairs and every linear colour in [0,1]^3 (superset of all decoded 8-bit triples), ToXYZ -> Bradford adaptation (iff the white points differ; the float64 matrix is computed concretely by the executor from the real AdaptBetweenXYYWhitePoints) -> ColorFromXYZ is within 4e-6 of A_ref*d (reals + float32 rounding-error variables, linear arithmetic), with A_ref built in the harness from declared chromaticities and the published Bradford matrix by textbook constructions; for a space to itself A_ref is the identity within 1e-9. Composition (glue): the output code is within 0.5+s_T of 255*OETF_D at a point within 1/1022 + 4e-6 + 3e-7*|A_ref|_inf of A_ref*EOTF_S(r/255); out-of-gamut values clip by C02-L1",
		Bounds: func(tier string) map[string]interface{} {
			return map[string]interface{}{"pairs": "all 16 ordered (source,destination) pairs", "colours": "all reals in [0,1]^3", "outside": "the glue step is an arithmetic consequence of the stage contracts stated in the explanation, not a separate solver query over the code; pipeline written in the harness from public calls as in the README"}
		},
		Runs: func(tier string, seed int64) []*Run {
			return []*Run{
				{H: sym.Harness{Pkg: "displayp3", Func: "VerifHarness_C04_LinearStage", Cfg: rerr, Workers: 8}, ExpectReach: []string{"linear-stage"}},
				{H: sym.Harness{Pkg: "displayp3", Func: "VerifHarness_C04_PixelStages", Cfg: sym.Config{UFTables: true, OneShotAsserts: true, MergeFuncs: quantiserMerge}, Workers: 4, TimeoutMs: 120000}, ExpectReach: []string{"pixel-stages"}, SamplePaths: 1},
				{H: sym.Harness{Pkg: "displayp3", Func: "VerifHarness_C04_NegControl", Cfg: rerr}, NegControl: true},
			}
		},
		Assumptions: []string{"stage contracts are those established by the checks C01, C02, C12 and C14 on the same tree", "IEEE-754 float32 rounding model |e| <= 2^-24|x| + 2^-150; the float64 operations of Apply get 2^-53 error variables"},
	})
}
