package checks

import (
	"encoding/json"
	"fmt"
	"os"
	"path/filepath"

	"gosym/sym"
)

// ReplayOne re-runs a stored replay file against the native build of /repo.
func ReplayOne(id, file string) int {
	data, err := os.ReadFile(file)
	if err != nil {
		fmt.Println(err)
		return 2
	}
	var rf ReplayFile
	if err := json.Unmarshal(data, &rf); err != nil {
		fmt.Println(err)
		return 2
	}
	if rf.Func == "custom" {
		fmt.Printf("replay of a ground obligation: %s\nre-run ./check %s to re-evaluate it against the current tree\n", rf.Detail, id)
		return 1
	}
	prog, err := sym.LoadProgram(filepath.Join(VerifDir, "harness"))
	if err != nil {
		fmt.Println(err)
		return 2
	}
	abs, _ := filepath.Abs(file)
	res, err := NativeReplay(prog, rf.Pkg, []string{abs}, rf.Kind == "race")
	if err != nil {
		fmt.Println(err)
		return 2
	}
	nr := res[abs]
	if nr == nil || !nr.Ran {
		fmt.Println("native replay did not run:", nr.Output)
		return 2
	}
	fmt.Printf("harness=%s label=%q\n  native failures: %v\n  native panic: %q\n  invalid: %q\n", rf.Harness, rf.Label, nr.Failures, nr.Panic, nr.Invalid)
	if len(nr.Failures) > 0 || nr.Panic != "" {
		fmt.Printf("VIOLATION property=%s replay=%s\n", id, file)
		return 1
	}
	fmt.Println("replay passes on the current tree")
	return 0
}
