package checks

import "gosym/sym"

func init() {
	// every query (feasibility and assertion) goes to fresh z3 / cvc5 / z3-new processes:
	// z3's incremental nlsat stalls on some non-linear feasibility queries that another
	// back end answers at once (measured: C13 round trip 17 s instead of 153 s)
	exact := sym.Config{Float: sym.FloatReal, OneShotAsserts: true, OneShotAll: true, StopAfterViolation: true}
	tryExact := sym.Config{Float: sym.FloatReal, OneShotAsserts: true, OneShotAll: true, StopAfterViolation: true, StopAfterUnknown: true}
	Register(&Spec{
		ID:          "C20",
		Level:       "model_checking",
		Explanation: "exact real arithmetic over the symbolic execution of matrix.Matrix3/Vector3 and ciexyz.TransformToXYZForXYYPrimaries (values are rational functions num/den of the symbolic inputs; the solver sees polynomial (in)equalities only): (1) MulM, MulV, Transpose, Dot, MulS are the textbook operations for all real entries; (2) M*Inverse(M) = Inverse(M)*M = I for every real M with |det| >= 1e-3; (3) for every primary triangle with x in [0,0.8], y in [1e-4,0.9], area >= 0.01 and white strictly inside, the generated matrix maps (1,1,1) to the white point's XYZ and each unit primary to that primary's chromaticity (exact identities); (4) bit-precise float64: matrices with a zero column or two equal columns (entries in [-4,4]) make Inverse panic (det == 0 exactly). Float rounding in (1)-(3) is outside the claim (rounding budget, DESIGN 3.6)",
		Bounds: func(tier string) map[string]interface{} {
			o := "counter-clockwise triangles (quick)"
			if tier == "thorough" {
				o = "both orientations"
			}
			return map[string]interface{}{"algebra": "all real entries", "inverse": "all real M with |det| >= 1e-3", "primaries": o, "luminance": "the four built-in primary sets with free luminances in [0.25,4] for the white point and each primary (the general-triangle harness fixes YY = 1); the same primaries requested twice with different white points", "singular": "zero column (3 cases), columns 0=1, 1=2; float64 entries in [-4,4]", "outside": "TransformFromXYZ*TransformToXYZ = I is not machine-checked for generated matrices (non-singularity of the generated matrix is undecided within the time limit); it follows from (2) whenever Inverse does not panic; equal columns 0=2"}
		},
		Runs: func(tier string, seed int64) []*Run {
			orient := int64(1)
			if tier == "thorough" {
				orient = 2
			}
			runs := []*Run{
				{H: sym.Harness{Pkg: "matrix", Func: "VerifHarness_C20_Algebra", Cfg: exact}, ExpectReach: []string{"algebra"}},
				{H: sym.Harness{Pkg: "matrix", Func: "VerifHarness_C20_Inverse", Cfg: exact, TimeoutMs: 120000}, ExpectReach: []string{"inverted"}},
				{H: sym.Harness{Pkg: "matrix", Func: "VerifHarness_C20_Singular", Cfg: sym.Config{OneShotAll: true, OneShotAsserts: true}, TimeoutMs: 300000, Workers: 5}, ExpectReach: []string{"singular-tried"}, SamplePaths: 2},
				{H: sym.Harness{Pkg: "ciexyz", Func: "VerifHarness_C20_Primaries", Cfg: exact, TimeoutMs: 300000, Workers: 2, SetGlobals: map[string]int64{"verifC20Orient": orient}}, ExpectReach: []string{"matrix-built"}},
				{H: sym.Harness{Pkg: "ciexyz", Func: "VerifHarness_C20_Luminance", Cfg: exact, TimeoutMs: 120000}, ExpectReach: []string{"luminance-built"}},
				{H: sym.Harness{Pkg: "ciexyz", Func: "VerifHarness_C20_Repeat", Cfg: exact, TimeoutMs: 120000}, ExpectReach: []string{"repeated"}},
				{H: sym.Harness{Pkg: "matrix", Func: "VerifHarness_C20_NegControl", Cfg: exact}, NegControl: true},
			}
			if tier == "thorough" {
				runs = append(runs,
					&Run{H: sym.Harness{Pkg: "ciexyz", Func: "VerifHarness_C20_PrimariesInverse", Cfg: tryExact, WallBudgetMs: 600000, TimeoutMs: 240000}, BestEffort: true},
					&Run{H: sym.Harness{Pkg: "matrix", Func: "VerifHarness_C20_Singular", Cfg: sym.Config{OneShotAll: true, OneShotAsserts: true}, TimeoutMs: 300000, WallBudgetMs: 900000, Workers: 6, SetGlobals: map[string]int64{"verifC20Kinds": 6}}, BestEffort: true})
			}
			return runs
		},
		Assumptions: []string{"float64/float32 rounding is not modelled in the exact-real parts: the real-arithmetic identities hold exactly; accumulated rounding is assumed below the property's tolerance (1e-9 x condition number)"},
	})
	Register(&Spec{
		ID:          "C12",
		Level:       "model_checking",
		Explanation: "exact real arithmetic (rational functions) over the symbolic execution of ciexyz.AdaptBetweenXYYWhitePoints/AdaptBetweenXYZWhitePoints/Apply with the package's own bradfordForward/bradfordInverse (the latter computed by the executor from the real initialiser): for all pairs of valid white points (chromaticity in [0.2,0.5]^2, Bradford cone responses >= 0.15) A->B maps white A onto white B within 1e-6, every entry equals Binv*diag(rho_B/rho_A)*B built from the published Bradford matrix and its textbook inverse within 1e-6, A->A is the identity within 1e-9, the xyY and XYZ constructors coincide, Apply is the matrix-vector product; A->B then B->A is the identity within 1e-6 (white points as free XYZ with cone responses in [0.15,3])",
		Bounds: func(tier string) map[string]interface{} {
			return map[string]interface{}{"white_points": "all valid chromaticities (see explanation), as reals", "colours": "all real XYZ for linearity", "outside": "A->B then B->C = A->C for three free white points is attempted in the thorough tier only (times out within 100 s per entry in this sandbox: reported as a reduced bound); float rounding (budget assumption)"}
		},
		Runs: func(tier string, seed int64) []*Run {
			runs := []*Run{
				{H: sym.Harness{Pkg: "ciexyz", Func: "VerifHarness_C12_WhiteToWhite", Cfg: exact, TimeoutMs: 120000}, ExpectReach: []string{"adapted"}},
				{H: sym.Harness{Pkg: "ciexyz", Func: "VerifHarness_C12_WhiteToWhiteXYZ", Cfg: exact, TimeoutMs: 120000}, ExpectReach: []string{"adapted-xyz"}},
				{H: sym.Harness{Pkg: "ciexyz", Func: "VerifHarness_C12_Linear", Cfg: exact}, ExpectReach: []string{"applied"}},
				{H: sym.Harness{Pkg: "ciexyz", Func: "VerifHarness_C12_NegControl", Cfg: exact}, NegControl: true},
			}
			if tier == "thorough" {
				runs = append(runs,
					&Run{H: sym.Harness{Pkg: "ciexyz", Func: "VerifHarness_C12_SharedCoordinate", Cfg: tryExact, WallBudgetMs: 600000, TimeoutMs: 300000}, BestEffort: true},
					&Run{H: sym.Harness{Pkg: "ciexyz", Func: "VerifHarness_C12_RoundTrip", Cfg: tryExact, WallBudgetMs: 600000, TimeoutMs: 240000}, BestEffort: true},
					&Run{H: sym.Harness{Pkg: "ciexyz", Func: "VerifHarness_C12_Compose", Cfg: tryExact, WallBudgetMs: 600000, TimeoutMs: 240000}, BestEffort: true})
			}
			return runs
		},
		Assumptions: []string{"float rounding is not modelled (exact reals with the float64-rounded Bradford constants the code uses); accumulated rounding is assumed below 1e-9"},
	})
	Register(&Spec{
		ID:          "C13",
		Level:       "model_checking",
		Explanation: "exact real arithmetic over the symbolic execution of Color.ToLAB and ColorFromLAB (every branch combination is a path; math.Pow(x,1/3) and math.Pow(x,3) enter through the cube-root witness contract): L*, a*, b* equal the CIE 1976 definition written independently in the harness within 1e-3; the reference white maps to (100,0,0) and its multiples have a*=b*=0; L* is non-decreasing in Y (allowance 1e-9 at the junction for the rounded constants) and f is continuous and 7.788-Lipschitz across 216/24389; XYZ->Lab->XYZ returns the input within 1e-5; on every path each cube root has a positive base and each divisor is non-zero (no NaN/Inf from finite inputs)",
		Bounds: func(tier string) map[string]interface{} {
			return map[string]interface{}{"xyz": "[-0.5,2]^3 (round trip: [0,2]^3)", "white": "[0.25,2]^3", "outside": "Lab->XYZ->Lab (attempted in the thorough tier; undecided within the time limit here), accuracy of the platform's math.Pow, float rounding (budget)"}
		},
		Runs: func(tier string, seed int64) []*Run {
			runs := []*Run{
				{H: sym.Harness{Pkg: "ciexyz", Func: "VerifHarness_C13_Definition", Cfg: exact}, ExpectReach: []string{"lab-computed"}},
				{H: sym.Harness{Pkg: "ciexyz", Func: "VerifHarness_C13_White", Cfg: exact}, ExpectReach: []string{"white-checked"}},
				{H: sym.Harness{Pkg: "ciexyz", Func: "VerifHarness_C13_MonotoneContinuous", Cfg: exact}, ExpectReach: []string{"monotone-checked"}},
				{H: sym.Harness{Pkg: "ciexyz", Func: "VerifHarness_C13_RoundTrip", Cfg: exact, TimeoutMs: 120000}, ExpectReach: []string{"roundtrip-lab"}},
				{H: sym.Harness{Pkg: "ciexyz", Func: "VerifHarness_C13_NegControl", Cfg: exact}, NegControl: true},
			}
			if tier == "thorough" {
				runs = append(runs, &Run{H: sym.Harness{Pkg: "ciexyz", Func: "VerifHarness_C13_LabRoundTrip", Cfg: tryExact, WallBudgetMs: 600000, TimeoutMs: 120000, Workers: 14, MaxPaths: 200}, BestEffort: true})
			}
			return runs
		},
		Assumptions: []string{"math.Pow is exact on symbolic arguments (witness contract); float rounding is not modelled (budget 1e-9 against the tolerances 1e-3 / 1e-5)"},
	})
}
