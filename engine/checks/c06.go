package checks

import "gosym/sym"

func init() {
	Register(&Spec{
		ID:    "C06",
		Level: "model_checking", CrossSolver: true,
		Explanation: "bounded symbolic execution of the loaders on ICC-carrying skeletons: JPEG with n APP2 ICC_PROFILE segments whose sequence numbers and totals are symbolic bytes (all orders, duplicates, gaps and inconsistent totals within the stated ranges are models of one harness), payload bytes symbolic, frame header before/between/after, optional interleaved COM segments; WebP VP8X with symbolic flags and an ICCP chunk of several sizes incl. 4095/4096/4097 symbolic bytes; PNG iCCP with symbolic name and compressed bytes straddling the 4096-byte buffer, inflate stubbed. The returned bytes are asserted equal (bit-vector equality per byte) to the specification-side assembly, damaged sets must give (nil, error) with metadata, absence (nil, nil)",
		Bounds: func(tier string) map[string]interface{} {
			return map[string]interface{}{
				"jpeg":      "n in 1..3 chunks (thorough 4), payload of chunk i = i+1 symbolic bytes, seq in [0,n+1], total in [n-1,n+1] (n=3: one common symbolic total), SOF at every position, with/without COM segments",
				"webp":      "ICCP sizes {0,1,7,4097} (thorough adds 4095,4096), flags byte symbolic",
				"png":       "(name length, compressed length) in {(1,8),(2,5),(79,8),(1,4060)} (thorough adds (1,4070),(3,5000)), 0..1 ancillary chunks before iCCP; unterminated 80-byte name",
				"png_large": "inflate output of 65537 and 1 MiB+1 bytes (thorough: 3 MiB), concrete content", "inflate": "stubbed: asserted are the bytes handed to inflate and that its output is returned untouched; 'any deflate level' is outside the claim",
				"outside": "more than 4 symbolically ordered chunks, 65519-byte payloads and 255 chunks, multi-MiB profiles",
			}
		},
		Runs: func(tier string, seed int64) []*Run {
			jn, ws, ps, bs := int64(3), int64(4), int64(4), int64(2)
			if tier == "thorough" {
				jn, ws, ps, bs = 4, 6, 6, 3
			}
			return []*Run{
				{H: sym.Harness{Pkg: "meta/jpegmeta", Func: "VerifHarness_C06_JPEG", SetGlobals: map[string]int64{"verifC06MaxChunks": jn}, Workers: 14, MaxPaths: 200000}, ExpectReach: []string{"jpeg-icc-valid", "jpeg-icc-damaged"}, SamplePaths: 6},
				{H: sym.Harness{Pkg: "meta/jpegmeta", Func: "VerifHarness_C06_JPEG_None"}, ExpectReach: []string{"jpeg-no-icc"}, SamplePaths: 2},
				{H: sym.Harness{Pkg: "meta/webpmeta", Func: "VerifHarness_C06_WebP", SetGlobals: map[string]int64{"verifC06Sizes": ws}}, ExpectReach: []string{"webp-noflag", "webp-iccp", "webp-flag-nochunk"}, SamplePaths: 4},
				{H: sym.Harness{Pkg: "meta/pngmeta", Func: "VerifHarness_C06_PNG", SetGlobals: map[string]int64{"verifC06Shapes": ps}}, ExpectReach: []string{"png-iccp-ok", "png-iccp-corrupt"}, SamplePaths: 4},
				{H: sym.Harness{Pkg: "meta/pngmeta", Func: "VerifHarness_C06_PNG_LongName"}, ExpectReach: []string{"png-longname"}, SamplePaths: 1},
				{H: sym.Harness{Pkg: "meta/pngmeta", Func: "VerifHarness_C06_PNG_Large", SetGlobals: map[string]int64{"verifC06BigSizes": bs}}, ExpectReach: []string{"png-iccp-large"}, SamplePaths: 1},
			}
		},
	})
}
