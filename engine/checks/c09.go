package checks

import "gosym/sym"

func init() {
	Register(&Spec{
		ID:          "C09",
		Level:       "model_checking",
		Explanation: "bounded symbolic execution with engine-level obligations on every path: (P) no panic reaches the harness from Load, Data.ICCProfile, ProfileReader.ReadProfile or Profile.Description; (A) at every make/append/new the allocated total stays <= 16*N + 128 KiB - for a symbolic size this is a satisfiability query whose model is the hostile file; (T) executed SSA instructions <= 4000*N + 200000. Inputs are N arbitrary symbolic bytes per loader and structured inputs in which every length/count/offset/size field is an unconstrained symbolic word",
		Bounds: func(tier string) map[string]interface{} {
			return map[string]interface{}{
				"arbitrary_bytes_N": "quick: pngmeta 28, jpegmeta 12, webpmeta 40, autometa 12, icc 148; thorough: 32, 15, 52, 14, 148",
				"structured":        "PNG: symbolic IHDR/iCCP/next-chunk lengths; JPEG: SOF + 2 APP2 ICC segments with symbolic chunk number in {0..4,255} and total in {0..3,255}; WebP: VP8X(flag)+ICCP with symbolic lengths; ICC: symbolic tag count + k<=2 entries with symbolic offset/size + 8 data bytes; desc: symbolic ASCII count; mluc: (a) symbolic record count+size with one well-formed record, (b) one record with unconstrained 32-bit length and offset, (c) two records with unconstrained record size; string content concrete (the property does not depend on it)",
				"budget":            "allocated bytes <= 16*N + 131072; SSA instructions <= 4000*N + 200000 (autometa: N counted three times, one per loader)",
				"zlib":              "stub; its output (5 symbolic bytes) is excluded from the claim (decompression ratio is the library's)",
				"outside":           "inputs longer than N, more than 2 tag entries / 1 mluc record / 2 ICC segments, wall-clock time (SSA instruction count is the proxy), allocator overhead",
			}
		},
		Runs: func(tier string, seed int64) []*Run {
			g := func(n int64) map[string]int64 { return map[string]int64{"verifC09N": n} }
			pn, jn, wn, an := int64(28), int64(12), int64(40), int64(12)
			if tier == "thorough" {
				pn, jn, wn, an = 32, 15, 52, 14
			}
			runs := []*Run{
				{H: sym.Harness{Pkg: "meta/pngmeta", Func: "VerifHarness_C09_NegControl"}, NegControl: true},
				{H: sym.Harness{Pkg: "meta/pngmeta", Func: "VerifHarness_C09_PNG_Arbitrary", SetGlobals: g(pn), Workers: 14}, ExpectReach: []string{"returned"}, SamplePaths: 3},
				{H: sym.Harness{Pkg: "meta/pngmeta", Func: "VerifHarness_C09_PNG_Chunks", Workers: 14}, ExpectReach: []string{"returned"}, SamplePaths: 3},
				{H: sym.Harness{Pkg: "meta/jpegmeta", Func: "VerifHarness_C09_JPEG_Arbitrary", SetGlobals: g(jn), Workers: 14}, ExpectReach: []string{"returned"}, SamplePaths: 3},
				{H: sym.Harness{Pkg: "meta/jpegmeta", Func: "VerifHarness_C09_JPEG_ICC"}, ExpectReach: []string{"returned"}, SamplePaths: 3},
				{H: sym.Harness{Pkg: "meta/webpmeta", Func: "VerifHarness_C09_WebP_Arbitrary", SetGlobals: g(wn)}, ExpectReach: []string{"returned"}, SamplePaths: 3},
				{H: sym.Harness{Pkg: "meta/webpmeta", Func: "VerifHarness_C09_WebP_ICCP"}, ExpectReach: []string{"returned"}, SamplePaths: 3},
				{H: sym.Harness{Pkg: "meta/autometa", Func: "VerifHarness_C09_Auto_Arbitrary", SetGlobals: g(an), Workers: 14}, ExpectReach: []string{"returned"}, SamplePaths: 3},
				{H: sym.Harness{Pkg: "meta/icc", Func: "VerifHarness_C09_ICC_Arbitrary"}, ExpectReach: []string{"returned"}, SamplePaths: 3},
				{H: sym.Harness{Pkg: "meta/icc", Func: "VerifHarness_C09_ICC_TagTable", Workers: 14}, ExpectReach: []string{"returned"}, SamplePaths: 3},
			}
			runs = append(runs, &Run{H: sym.Harness{Pkg: "meta/icc", Func: "VerifHarness_C09_ICC_SharedTags", WallBudgetMs: 300000}, ExpectReach: []string{"returned"}, SamplePaths: 1})
			// one run per shape of the description tag, each with its own path budget, so that
			// a path explosion in one shape cannot hide a violation in another
			for k := int64(0); k < 7; k++ {
				runs = append(runs, &Run{H: sym.Harness{Pkg: "meta/icc", Func: "VerifHarness_C09_ICC_Desc", Workers: 6, MaxPaths: 6000, WallBudgetMs: 300000, SetGlobals: map[string]int64{"verifC09Case": k}}, ExpectReach: []string{"returned"}, SamplePaths: 1})
			}
			return runs
		},
	})
}
