package ciexyz

import (
	"github.com/mandykoh/prism/ciexyy"
	"github.com/mandykoh/prism/matrix"
)

// Published Bradford cone response matrix (Lam 1985; as in ICC.1 Annex E), row-major.
var verifBradford = [3][3]float64{
	{0.8951, 0.2664, -0.1614},
	{-0.7502, 1.7135, 0.0367},
	{0.0389, -0.0685, 1.0296},
}

func verifCone(x, y, z float64) [3]float64 {
	var r [3]float64
	for i := 0; i < 3; i++ {
		r[i] = verifBradford[i][0]*x + verifBradford[i][1]*y + verifBradford[i][2]*z
	}
	return r
}

// textbook inverse (adjugate / determinant) of the published matrix, spec side
func verifBradfordInv() [3][3]float64 {
	m := verifBradford
	det := m[0][0]*(m[1][1]*m[2][2]-m[1][2]*m[2][1]) - m[0][1]*(m[1][0]*m[2][2]-m[1][2]*m[2][0]) + m[0][2]*(m[1][0]*m[2][1]-m[1][1]*m[2][0])
	var inv [3][3]float64
	for r := 0; r < 3; r++ {
		for c := 0; c < 3; c++ {
			a, b := (c+1)%3, (c+2)%3
			p, q := (r+1)%3, (r+2)%3
			inv[r][c] = (m[a][p]*m[b][q] - m[a][q]*m[b][p]) / det
		}
	}
	return inv
}

// a physically valid white point: chromaticity in [0.2,0.5]^2 and every Bradford cone
// response of its XYZ (Y=1) at least 0.15 (DESIGN 3.2)
func verifWhite() (ciexyy.Color, [3]float64) {
	x, y := verifF32(), verifF32()
	verifAssume(verifAnd(verifAnd(x >= 0.2, x <= 0.5), verifAnd(y >= 0.2, y <= 0.5)))
	X, Z := float64(x)/float64(y), (1-float64(x)-float64(y))/float64(y)
	rho := verifCone(X, 1, Z)
	verifAssume(verifAnd(rho[0] >= 0.15, verifAnd(rho[1] >= 0.15, rho[2] >= 0.15)))
	return ciexyy.Color{X: x, Y: y, YY: 1}, rho
}

func verifNear(a, b, tol float64) bool {
	return verifAnd(a-b <= tol, b-a <= tol)
}

func verifA(m matrix.Matrix3, r, c int) float64 { return m[c][r] }

// VerifHarness_C12_WhiteToWhite (exact reals, rational functions): adapting A->B maps
// A's XYZ onto B's XYZ within 1e-6, every entry of the adaptation equals
// Binv * diag(rho_B/rho_A) * B built from the published Bradford matrix and its
// textbook inverse within 1e-6, A->A is the identity within 1e-9, and the xyY and
// XYZ constructors give the same matrix.
func VerifHarness_C12_WhiteToWhite() {
	wa, ra := verifWhite()
	wb, rb := verifWhite()
	ad := AdaptBetweenXYYWhitePoints(wa, wb)
	verifReach("adapted")
	xa, xb := ColorFromXYY(wa), ColorFromXYY(wb)
	got := matrix.Matrix3(ad).MulV(xa.ToV())
	verifAssert(verifNear(got[0], float64(xb.X), 1e-6), "A->B does not map white A to white B (X)")
	verifAssert(verifNear(got[1], float64(xb.Y), 1e-6), "A->B does not map white A to white B (Y)")
	verifAssert(verifNear(got[2], float64(xb.Z), 1e-6), "A->B does not map white A to white B (Z)")
	inv := verifBradfordInv()
	for r := 0; r < 3; r++ {
		for c := 0; c < 3; c++ {
			var ref float64
			for k := 0; k < 3; k++ {
				ref += inv[r][k] * (rb[k] / ra[k]) * verifBradford[k][c]
			}
			verifAssert(verifNear(verifA(matrix.Matrix3(ad), r, c), ref, 1e-6), "adaptation matrix differs from the Bradford-method matrix")
		}
	}
	same := AdaptBetweenXYZWhitePoints(xa, xb)
	for r := 0; r < 3; r++ {
		for c := 0; c < 3; c++ {
			verifAssert(verifA(matrix.Matrix3(same), r, c) == verifA(matrix.Matrix3(ad), r, c), "xyY and XYZ constructors give different adaptations")
		}
	}
	id := AdaptBetweenXYYWhitePoints(wa, wa)
	for r := 0; r < 3; r++ {
		for c := 0; c < 3; c++ {
			var e float64
			if r == c {
				e = 1
			}
			verifAssert(verifNear(verifA(matrix.Matrix3(id), r, c), e, 1e-9), "A->A is not the identity")
		}
	}
}

// VerifHarness_C12_SharedCoordinate: the same obligations for pairs of white points that
// share their x (or their y) chromaticity exactly - a measure-zero family on which an
// equality shortcut in the code would fire.
func VerifHarness_C12_SharedCoordinate() {
	wa, _ := verifWhite()
	other := verifF32()
	verifAssume(verifAnd(other >= 0.2, other <= 0.5))
	var wb ciexyy.Color
	if verifChoice(2) == 0 {
		wb = ciexyy.Color{X: wa.X, Y: other, YY: 1}
	} else {
		wb = ciexyy.Color{X: other, Y: wa.Y, YY: 1}
	}
	rb := verifCone(float64(wb.X)/float64(wb.Y), 1, (1-float64(wb.X)-float64(wb.Y))/float64(wb.Y))
	verifAssume(verifAnd(rb[0] >= 0.15, verifAnd(rb[1] >= 0.15, rb[2] >= 0.15)))
	ad := AdaptBetweenXYYWhitePoints(wa, wb)
	verifReach("adapted-shared")
	xa, xb := ColorFromXYY(wa), ColorFromXYY(wb)
	got := matrix.Matrix3(ad).MulV(xa.ToV())
	verifAssert(verifNear(got[0], float64(xb.X), 1e-6), "shared coordinate: A->B does not map white A to white B (X)")
	verifAssert(verifNear(got[2], float64(xb.Z), 1e-6), "shared coordinate: A->B does not map white A to white B (Z)")
	same := AdaptBetweenXYZWhitePoints(xa, xb)
	for r := 0; r < 3; r++ {
		for c := 0; c < 3; c++ {
			verifAssert(verifA(matrix.Matrix3(same), r, c) == verifA(matrix.Matrix3(ad), r, c), "shared coordinate: xyY and XYZ constructors give different adaptations")
		}
	}
}

// VerifHarness_C12_Linear: Apply is the matrix-vector product of the adaptation matrix
// (hence linear), up to the final conversion to float32.
func VerifHarness_C12_Linear() {
	wa, _ := verifWhite()
	wb, _ := verifWhite()
	ad := AdaptBetweenXYYWhitePoints(wa, wb)
	c := Color{verifF32(), verifF32(), verifF32()}
	out := ad.Apply(c)
	want := matrix.Matrix3(ad).MulV(matrix.Vector3{float64(c.X), float64(c.Y), float64(c.Z)})
	verifReach("applied")
	verifAssert(verifAnd(float64(out.X) == want[0], verifAnd(float64(out.Y) == want[1], float64(out.Z) == want[2])), "Apply is not the matrix-vector product")
}

// cone-response form of a white point: free XYZ with its cone responses in the valid
// range (a change of variables: B is invertible)
func verifWhiteXYZ() (Color, matrix.Vector3) {
	c := Color{verifF32(), 1, verifF32()}
	rho := bradfordForward.MulV(c.ToV())
	verifAssume(verifAnd(verifAnd(rho[0] >= 0.15, rho[0] <= 3), verifAnd(verifAnd(rho[1] >= 0.15, rho[1] <= 3), verifAnd(rho[2] >= 0.15, rho[2] <= 3))))
	return c, rho
}

// VerifHarness_C12_RoundTrip: A->B followed by B->A is the identity within 1e-6 per entry.
func VerifHarness_C12_RoundTrip() {
	a, _ := verifWhiteXYZ()
	b, _ := verifWhiteXYZ()
	ab := matrix.Matrix3(AdaptBetweenXYZWhitePoints(a, b))
	ba := matrix.Matrix3(AdaptBetweenXYZWhitePoints(b, a))
	p := ba.MulM(ab)
	verifReach("roundtrip")
	for r := 0; r < 3; r++ {
		for c := 0; c < 3; c++ {
			var e float64
			if r == c {
				e = 1
			}
			verifAssert(verifNear(verifA(p, r, c), e, 1e-6), "A->B then B->A is not the identity")
		}
	}
}

// VerifHarness_C12_Compose: A->B followed by B->C equals A->C within 1e-6 per entry.
func VerifHarness_C12_Compose() {
	a, _ := verifWhiteXYZ()
	b, _ := verifWhiteXYZ()
	cc, _ := verifWhiteXYZ()
	ab := matrix.Matrix3(AdaptBetweenXYZWhitePoints(a, b))
	bc := matrix.Matrix3(AdaptBetweenXYZWhitePoints(b, cc))
	ac := matrix.Matrix3(AdaptBetweenXYZWhitePoints(a, cc))
	p := bc.MulM(ab)
	verifReach("composed")
	for r := 0; r < 3; r++ {
		for c := 0; c < 3; c++ {
			verifAssert(verifNear(verifA(p, r, c), verifA(ac, r, c), 1e-6), "A->B then B->C differs from A->C")
		}
	}
}

// VerifHarness_C12_NegControl: deliberately wrong claim (adapting D50->D65 leaves X unchanged).
func VerifHarness_C12_NegControl() {
	ad := AdaptBetweenXYYWhitePoints(ciexyy.D50, ciexyy.D65)
	c := Color{verifF32(), verifF32(), verifF32()}
	verifAssume(verifAnd(c.X >= 0.1, c.X <= 1))
	out := ad.Apply(c)
	verifAssert(verifNear(float64(out.X), float64(c.X), 1e-6), "negative control: D50->D65 leaves X unchanged (wrong on purpose)")
}

// VerifHarness_C12_WhiteToWhiteXYZ: the obligations of WhiteToWhite for the XYZ
// constructor called directly with free XYZ white points (Y = 1): a shortcut keyed on a
// particular XYZ value is reachable here with float32-representable inputs, which the
// xyY route (X = x/y, rounded) cannot produce. The destination white has a free luminance.
func VerifHarness_C12_WhiteToWhiteXYZ() {
	a, _ := verifWhiteXYZ()
	b, _ := verifWhiteXYZ()
	// the two whites may differ in luminance: b's Y is free in [0.5, 2] (its X and Z
	// scale with it, so its cone responses stay within the valid range times Y)
	yb := verifF32()
	verifAssume(verifAnd(yb >= 0.5, yb <= 2))
	b = Color{X: b.X * yb, Y: yb, Z: b.Z * yb}
	ra := verifCone(float64(a.X), float64(a.Y), float64(a.Z))
	rb := verifCone(float64(b.X), float64(b.Y), float64(b.Z))
	ad := AdaptBetweenXYZWhitePoints(a, b)
	verifReach("adapted-xyz")
	got := matrix.Matrix3(ad).MulV(a.ToV())
	verifAssert(verifNear(got[0], float64(b.X), 1e-6), "XYZ constructor: A->B does not map white A to white B (X)")
	verifAssert(verifNear(got[1], float64(b.Y), 1e-6), "XYZ constructor: A->B does not map white A to white B (Y)")
	verifAssert(verifNear(got[2], float64(b.Z), 1e-6), "XYZ constructor: A->B does not map white A to white B (Z)")
	inv := verifBradfordInv()
	for r := 0; r < 3; r++ {
		for c := 0; c < 3; c++ {
			var ref float64
			for k := 0; k < 3; k++ {
				ref += inv[r][k] * (rb[k] / ra[k]) * verifBradford[k][c]
			}
			verifAssert(verifNear(verifA(matrix.Matrix3(ad), r, c), ref, 1e-6), "XYZ constructor: adaptation matrix differs from the Bradford-method matrix")
		}
	}
}
