package ciexyz

import "github.com/mandykoh/prism/cielab"

// CIE 15:2004 8.2.1, written independently of the code under test. f(t) = t^(1/3) for
// t > (6/29)^3 = 216/24389, else (841/108) t + 4/29. The cube root enters as a witness:
// verifCbrt(t) is a value c with c^3 = t (symbolically a fresh real constrained by
// c*c*c == t; natively math.Cbrt).
const verifEps = 216.0 / 24389.0
const verifKappa = 24389.0 / 27.0

func verifF(t float64) float64 {
	if t > verifEps {
		return verifCbrt(t)
	}
	return (841.0/108.0)*t + 4.0/29.0
}

func verifLabBox(c Color, w Color) bool {
	in := func(v float32) bool { return verifAnd(v >= -0.5, v <= 2) }
	wp := func(v float32) bool { return verifAnd(v >= 0.25, v <= 2) }
	return verifAnd(verifAnd(in(c.X), verifAnd(in(c.Y), in(c.Z))), verifAnd(wp(w.X), verifAnd(wp(w.Y), wp(w.Z))))
}

// VerifHarness_C13_Definition (exact reals + cube-root witnesses): L*, a*, b* equal the
// CIE 1976 definition within 1e-3 for every XYZ in [-0.5,2]^3 and white in [0.25,2]^3.
func VerifHarness_C13_Definition() {
	c := Color{verifF32(), verifF32(), verifF32()}
	w := Color{verifF32(), verifF32(), verifF32()}
	verifAssume(verifLabBox(c, w))
	lab := c.ToLAB(w)
	fx, fy, fz := verifF(float64(c.X)/float64(w.X)), verifF(float64(c.Y)/float64(w.Y)), verifF(float64(c.Z)/float64(w.Z))
	verifReach("lab-computed")
	verifAssert(verifNear(float64(lab.L), 116*fy-16, 1e-3), "L* differs from the CIE 1976 definition")
	verifAssert(verifNear(float64(lab.A), 500*(fx-fy), 1e-3), "a* differs from the CIE 1976 definition")
	verifAssert(verifNear(float64(lab.B), 200*(fy-fz), 1e-3), "b* differs from the CIE 1976 definition")
}

// VerifHarness_C13_White: the reference white maps to (100,0,0); any positive multiple of
// the white has a* = b* = 0 (within 1e-3).
func VerifHarness_C13_White() {
	w := Color{verifF32(), verifF32(), verifF32()}
	k := verifF32()
	verifAssume(verifAnd(verifAnd(w.X >= 0.25, w.X <= 2), verifAnd(verifAnd(w.Y >= 0.25, w.Y <= 2), verifAnd(w.Z >= 0.25, w.Z <= 2))))
	verifAssume(verifAnd(k >= 0.01, k <= 1))
	lab := w.ToLAB(w)
	verifAssert(verifNear(float64(lab.L), 100, 1e-3), "white does not map to L* = 100")
	verifAssert(verifAnd(verifNear(float64(lab.A), 0, 1e-3), verifNear(float64(lab.B), 0, 1e-3)), "white does not map to a* = b* = 0")
	grey := Color{k * w.X, k * w.Y, k * w.Z}.ToLAB(w)
	verifReach("white-checked")
	verifAssert(verifAnd(verifNear(float64(grey.A), 0, 1e-3), verifNear(float64(grey.B), 0, 1e-3)), "a multiple of the white does not have a* = b* = 0")
}

// VerifHarness_C13_MonotoneContinuous: L* is non-decreasing in Y, and f is continuous
// across the junction 216/24389 (Lipschitz bound 7.788 |r2-r1| + 1e-9 on [0, 0.05]).
func VerifHarness_C13_MonotoneContinuous() {
	w := Color{1, verifF32(), 1}
	verifAssume(verifAnd(w.Y >= 0.25, w.Y <= 2))
	y1, y2 := verifF32(), verifF32()
	verifAssume(verifAnd(verifAnd(y1 >= -0.5, y1 <= y2), y2 <= 2))
	l1 := Color{0.5, y1, 0.5}.ToLAB(w).L
	l2 := Color{0.5, y2, 0.5}.ToLAB(w).L
	verifReach("monotone-checked")
	// 1e-9: allowance for the float64 rounding of the constants 216/24389 and 24389/27 at
	// the junction (exact reals see a jump of about 1e-15 there); for float32 inputs one
	// input step changes L* by more than 1e-7, so the float32 result is non-decreasing
	verifAssert(float64(l1) <= float64(l2)+1e-9, "L* decreases as Y increases")
	r1, r2 := verifF64(), verifF64()
	verifAssume(verifAnd(verifAnd(r1 >= 0, r1 <= r2), r2 <= 0.05))
	f1, f2 := componentToLAB(float32(r1), 1), componentToLAB(float32(r2), 1)
	verifAssert(verifAnd(f2-f1 <= 7.788*(r2-r1)+1e-9, f1-f2 <= 1e-9), "f is not continuous/monotone across the junction")
}

// VerifHarness_C13_RoundTrip: XYZ -> Lab -> XYZ returns the input within 1e-5 per component.
func VerifHarness_C13_RoundTrip() {
	c := Color{verifF32(), verifF32(), verifF32()}
	w := Color{verifF32(), verifF32(), verifF32()}
	verifAssume(verifLabBox(c, w))
	verifAssume(verifAnd(c.X >= 0, verifAnd(c.Y >= 0, c.Z >= 0)))
	back := ColorFromLAB(c.ToLAB(w), w)
	verifReach("roundtrip-lab")
	verifAssert(verifNear(float64(back.X), float64(c.X), 1e-5), "XYZ->Lab->XYZ changes X")
	verifAssert(verifNear(float64(back.Y), float64(c.Y), 1e-5), "XYZ->Lab->XYZ changes Y")
	verifAssert(verifNear(float64(back.Z), float64(c.Z), 1e-5), "XYZ->Lab->XYZ changes Z")
}

// VerifHarness_C13_LabRoundTrip: Lab -> XYZ -> Lab within 1e-3.
func VerifHarness_C13_LabRoundTrip() {
	lab := cielab.Color{L: verifF32(), A: verifF32(), B: verifF32()}
	w := Color{verifF32(), verifF32(), verifF32()}
	verifAssume(verifAnd(verifAnd(lab.L >= 0, lab.L <= 110), verifAnd(verifAnd(lab.A >= -200, lab.A <= 200), verifAnd(lab.B >= -200, lab.B <= 200))))
	verifAssume(verifAnd(verifAnd(w.X >= 0.25, w.X <= 2), verifAnd(verifAnd(w.Y >= 0.25, w.Y <= 2), verifAnd(w.Z >= 0.25, w.Z <= 2))))
	back := ColorFromLAB(lab, w).ToLAB(w)
	verifReach("roundtrip-xyz")
	verifAssert(verifNear(float64(back.L), float64(lab.L), 1e-3), "Lab->XYZ->Lab changes L*")
	verifAssert(verifNear(float64(back.A), float64(lab.A), 1e-3), "Lab->XYZ->Lab changes a*")
	verifAssert(verifNear(float64(back.B), float64(lab.B), 1e-3), "Lab->XYZ->Lab changes b*")
}

// VerifHarness_C13_NegControl: deliberately wrong claim (a* uses factor 200).
func VerifHarness_C13_NegControl() {
	c := Color{verifF32(), verifF32(), verifF32()}
	w := Color{verifF32(), verifF32(), verifF32()}
	verifAssume(verifLabBox(c, w))
	lab := c.ToLAB(w)
	fx, fy := verifF(float64(c.X)/float64(w.X)), verifF(float64(c.Y)/float64(w.Y))
	verifAssert(verifNear(float64(lab.A), 200*(fx-fy), 1e-3), "negative control: a* = 200(fx-fy) (wrong on purpose)")
}
