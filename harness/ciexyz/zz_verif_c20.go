package ciexyz

import (
	"github.com/mandykoh/prism/ciexyy"
	"github.com/mandykoh/prism/matrix"
)

func verifChroma() ciexyy.Color {
	x, y := verifF32(), verifF32()
	verifAssume(verifAnd(verifAnd(x >= 0, x <= 0.8), verifAnd(y >= 0.0001, y <= 0.9)))
	return ciexyy.Color{X: x, Y: y, YY: 1}
}

// twice the signed area of the triangle (p, q, s) in the chromaticity plane
func verifArea2(p, q, s ciexyy.Color) float64 {
	return (float64(q.X)-float64(p.X))*(float64(s.Y)-float64(p.Y)) - (float64(s.X)-float64(p.X))*(float64(q.Y)-float64(p.Y))
}

// VerifHarness_C20_Primaries (exact real arithmetic, divisions as witnesses): for every
// non-degenerate triple of primaries (area >= 0.01, counter-clockwise or clockwise) and
// white point strictly inside the triangle, T = TransformToXYZForXYYPrimaries maps
// (1,1,1) to the white point's XYZ, each unit primary to a colour of that primary's
// chromaticity, and TransformFromXYZForXYYPrimaries is its inverse.
func VerifHarness_C20_Primaries() {
	r, g, b, w := verifChroma(), verifChroma(), verifChroma(), verifChroma()
	orient := verifChoice(verifC20Orient)
	a := verifArea2(r, g, b)
	wr, wg, wb := verifArea2(w, g, b), verifArea2(r, w, b), verifArea2(r, g, w)
	if orient == 0 {
		verifAssume(a >= 0.02)
		verifAssume(verifAnd(wr > 0, verifAnd(wg > 0, wb > 0)))
	} else {
		verifAssume(a <= -0.02)
		verifAssume(verifAnd(wr < 0, verifAnd(wg < 0, wb < 0)))
	}
	t := TransformToXYZForXYYPrimaries(r, g, b, w)
	verifReach("matrix-built")
	white := ColorFromXYY(w).ToV()
	one := matrix.Vector3{1, 1, 1}
	tw := t.MulV(one)
	verifAssert(tw[0] == white[0], "T*(1,1,1) X differs from the white point")
	verifAssert(tw[1] == white[1], "T*(1,1,1) Y differs from the white point")
	verifAssert(tw[2] == white[2], "T*(1,1,1) Z differs from the white point")
	prim := []ciexyy.Color{r, g, b}
	for i := 0; i < 3; i++ {
		col := t[i] // image of the i-th unit primary
		sum := col[0] + col[1] + col[2]
		verifAssert(col[0] == float64(prim[i].X)*sum, "unit primary does not map to that primary's x chromaticity")
		verifAssert(col[1] == float64(prim[i].Y)*sum, "unit primary does not map to that primary's y chromaticity")
	}
}

// VerifHarness_C20_PrimariesInverse: TransformFromXYZ... * TransformToXYZ... = I.
func VerifHarness_C20_PrimariesInverse() {
	r, g, b, w := verifChroma(), verifChroma(), verifChroma(), verifChroma()
	a := verifArea2(r, g, b)
	wr, wg, wb := verifArea2(w, g, b), verifArea2(r, w, b), verifArea2(r, g, w)
	verifAssume(a >= 0.02)
	verifAssume(verifAnd(wr > 0, verifAnd(wg > 0, wb > 0)))
	t := TransformToXYZForXYYPrimaries(r, g, b, w)
	f := TransformFromXYZForXYYPrimaries(r, g, b, w)
	verifReach("inverse-built")
	p := f.MulM(t)
	for c := 0; c < 3; c++ {
		for rr := 0; rr < 3; rr++ {
			var id float64
			if c == rr {
				id = 1
			}
			verifAssert(p[c][rr] == id, "TransformFromXYZ * TransformToXYZ is not the identity")
		}
	}
}

var verifC20Orient = 1

// VerifHarness_C20_Luminance: the luminance components. For concrete primaries (the four
// built-in sets, chosen by the path) and a white point of the set's chromaticity with a
// FREE luminance YY in [0.25, 4], T*(1,1,1) is the white's XYZ (which scales with YY);
// and the luminances given to the three primaries (free in [0.25, 4]) do not matter.
func VerifHarness_C20_Luminance() {
	sets := [][4][2]float32{
		{{0.64, 0.33}, {0.3, 0.6}, {0.15, 0.06}, {0.3127, 0.329}},                // sRGB / D65
		{{0.64, 0.33}, {0.21, 0.71}, {0.15, 0.06}, {0.3127, 0.329}},              // Adobe RGB / D65
		{{0.7347, 0.2653}, {0.1596, 0.8404}, {0.0366, 0.0001}, {0.3457, 0.3585}}, // ProPhoto / D50
		{{0.68, 0.32}, {0.265, 0.69}, {0.15, 0.06}, {0.3127, 0.329}},             // Display P3 / D65
	}
	s := sets[verifChoice(len(sets))]
	lum := func() float32 {
		v := verifF32()
		verifAssume(verifAnd(v >= 0.25, v <= 4))
		return v
	}
	r := ciexyy.Color{X: s[0][0], Y: s[0][1], YY: lum()}
	g := ciexyy.Color{X: s[1][0], Y: s[1][1], YY: lum()}
	b := ciexyy.Color{X: s[2][0], Y: s[2][1], YY: lum()}
	w := ciexyy.Color{X: s[3][0], Y: s[3][1], YY: lum()}
	t := TransformToXYZForXYYPrimaries(r, g, b, w)
	verifReach("luminance-built")
	white := ColorFromXYY(w).ToV()
	tw := t.MulV(matrix.Vector3{1, 1, 1})
	verifAssert(verifAnd(tw[0] == white[0], verifAnd(tw[1] == white[1], tw[2] == white[2])), "T*(1,1,1) is not the white point's XYZ when the white's luminance is not 1")
	r.YY, g.YY, b.YY = 1, 1, 1
	t1 := TransformToXYZForXYYPrimaries(r, g, b, w)
	for c := 0; c < 3; c++ {
		for k := 0; k < 3; k++ {
			// (tolerance, not equality: t1 is computed from constants, which the executor folds
			// with float32 rounding, while the symbolic side is exact)
			d := t[c][k] - t1[c][k]
			verifAssert(verifAnd(d <= 1e-6, d >= -1e-6), "the matrix depends on the luminance given to a primary")
		}
	}
}

// VerifHarness_C20_Repeat: the generated matrix depends on the arguments of THIS call
// only: the same primaries requested again with another white point (other chromaticity,
// free luminances) give that white point's matrix, in both directions.
func VerifHarness_C20_Repeat() {
	r := ciexyy.Color{X: 0.64, Y: 0.33, YY: 1}
	g := ciexyy.Color{X: 0.3, Y: 0.6, YY: 1}
	b := ciexyy.Color{X: 0.15, Y: 0.06, YY: 1}
	l1, l2 := verifF32(), verifF32()
	verifAssume(verifAnd(verifAnd(l1 >= 0.25, l1 <= 4), verifAnd(l2 >= 0.25, l2 <= 4)))
	whites := []ciexyy.Color{{X: 0.3127, Y: 0.329, YY: l1}, {X: 0.3457, Y: 0.3585, YY: l2}}
	one := matrix.Vector3{1, 1, 1}
	for _, w := range whites {
		t := TransformToXYZForXYYPrimaries(r, g, b, w)
		f := TransformFromXYZForXYYPrimaries(r, g, b, w)
		white := ColorFromXYY(w).ToV()
		tw := t.MulV(one)
		// (tolerances: the primaries are constants here, folded with float rounding)
		e0, e1, e2 := tw[0]-white[0], tw[1]-white[1], tw[2]-white[2]
		verifAssert(verifAnd(verifAnd(e0 <= 1e-9, e0 >= -1e-9), verifAnd(verifAnd(e1 <= 1e-9, e1 >= -1e-9), verifAnd(e2 <= 1e-9, e2 >= -1e-9))), "repeated request: T*(1,1,1) is not the white point of this call")
		back := f.MulV(white)
		d0, d1, d2 := back[0]-1, back[1]-1, back[2]-1
		verifAssert(verifAnd(verifAnd(d0 <= 1e-9, d0 >= -1e-9), verifAnd(verifAnd(d1 <= 1e-9, d1 >= -1e-9), verifAnd(d2 <= 1e-9, d2 >= -1e-9))), "repeated request: TransformFromXYZ does not map this call's white point to (1,1,1)")
	}
	verifReach("repeated")
}
