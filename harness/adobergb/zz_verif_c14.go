package adobergb

import (
	"image/color"

	"github.com/mandykoh/prism/linear"
)

// VerifHarness_C14_Wiring (bit-precise floats, tables as uninterpreted functions).
func VerifHarness_C14_Wiring() {
	r8, g8, b8, a8 := verifU8(), verifU8(), verifU8(), verifU8()
	// non-premultiplied 8-bit: alpha is exactly A/255
	_, an := ColorFromNRGBA(color.NRGBA{R: r8, G: g8, B: b8, A: a8})
	verifAssert(verifSameF32(an, float32(a8)/255), "ColorFromNRGBA: alpha is not A/255")
	// premultiplied 8-bit: alpha A/255; transparent gives the zero colour
	cr, ar := ColorFromRGBA(color.RGBA{R: r8, G: g8, B: b8, A: a8})
	verifAssert(verifSameF32(ar, float32(a8)/255), "ColorFromRGBA: alpha is not A/255")
	verifAssert(verifImplies(a8 == 0, verifAnd(verifAnd(verifSameF32(cr.R, 0), verifSameF32(cr.G, 0)), verifSameF32(cr.B, 0))), "ColorFromRGBA: transparent pixel is not the zero colour")
	// generic 16-bit colour
	r16, g16, b16, a16 := verifU16(), verifU16(), verifU16(), verifU16()
	ce, ae := ColorFromEncodedColor(color.NRGBA64{R: r16, G: g16, B: b16, A: a16})
	verifAssert(verifSameF32(ae, float32(a16)/65535), "ColorFromEncodedColor: alpha is not A/65535")
	verifAssert(verifImplies(a16 == 0, verifAnd(verifAnd(verifSameF32(ce.R, 0), verifSameF32(ce.G, 0)), verifSameF32(ce.B, 0))), "ColorFromEncodedColor: transparent pixel is not the zero colour")
	cl, al := ColorFromLinearColor(color.NRGBA64{R: r16, G: g16, B: b16, A: a16})
	verifAssert(verifSameF32(al, float32(a16)/65535), "ColorFromLinearColor: alpha is not A/65535")
	verifAssert(verifImplies(a16 == 0, verifAnd(verifAnd(verifSameF32(cl.R, 0), verifSameF32(cl.G, 0)), verifSameF32(cl.B, 0))), "ColorFromLinearColor: transparent pixel is not the zero colour")
	// linearising / encoding leaves the alpha channel bit-identical
	lin := LineariseColor(color.NRGBA64{R: r16, G: g16, B: b16, A: a16})
	verifAssert(lin.A == a16, "LineariseColor changes alpha")
	enc := EncodeColor(color.NRGBA64{R: r16, G: g16, B: b16, A: a16})
	verifAssert(enc.A == a16, "EncodeColor changes alpha")
	// encode side: every colour type writes alpha as the quantiser's value (clip and round
	// for every float32 alpha incl. NaN and out-of-range follow from C02's quantiser result)
	fa, fr := verifF32(), verifF32()
	ec := ColorFromLinear(fr, fr, fr)
	verifAssert(ec.ToNRGBA(fa).A == linear.NormalisedTo8Bit(fa), "ToNRGBA: alpha is not the 8-bit quantiser of alpha")
	verifAssert(ec.ToRGBA(fa).A == linear.NormalisedTo8Bit(fa), "ToRGBA: alpha is not the 8-bit quantiser of alpha")
	verifAssert(ec.ToRGBA64(fa).A == linear.NormalisedTo16Bit(fa), "ToRGBA64: alpha is not the 16-bit quantiser of alpha")
	// ... and against the statement itself, written here independently of the quantiser:
	// clipped to [0,1] (every float32 incl. +Inf and huge values), rounded half up inside
	a8, a8p, a16 := ec.ToNRGBA(fa).A, ec.ToRGBA(fa).A, ec.ToRGBA64(fa).A
	verifAssert(verifImplies(fa <= 0, verifAnd(a8 == 0, verifAnd(a8p == 0, a16 == 0))), "encode: alpha <= 0 is not written as 0")
	verifAssert(verifImplies(fa >= 1, verifAnd(a8 == 255, verifAnd(a8p == 255, a16 == 65535))), "encode: alpha >= 1 is not written as the maximum")
	verifAssert(verifImplies(verifAnd(fa > 0, fa < 1), verifAnd(a8 == uint8(fa*255+0.5), verifAnd(a8p == uint8(fa*255+0.5), a16 == uint16(fa*65535+0.5)))), "encode: alpha inside (0,1) is not written as round-half-up(alpha*max)")
	// opaque colours: the three constructors agree (the generic one reads T16[257 v])
	on, _ := ColorFromNRGBA(color.NRGBA{R: r8, G: g8, B: b8, A: 255})
	op, _ := ColorFromRGBA(color.RGBA{R: r8, G: g8, B: b8, A: 255})
	og, _ := ColorFromEncodedColor(color.NRGBA{R: r8, G: g8, B: b8, A: 255})
	verifAssert(verifAnd(verifSameF32(on.R, op.R), verifAnd(verifSameF32(on.G, op.G), verifSameF32(on.B, op.B))), "opaque: ColorFromNRGBA and ColorFromRGBA differ")
	verifAssert(verifAnd(verifSameF32(og.R, From16Bit(uint16(r8)*257)), verifAnd(verifSameF32(og.G, From16Bit(uint16(g8)*257)), verifSameF32(og.B, From16Bit(uint16(b8)*257)))), "opaque: generic constructor is not T16[257 v] (= T8[v] by the table obligations of C01)")
	verifReach("c14-wired")
}
