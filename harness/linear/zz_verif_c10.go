package linear

import (
	"image"
	"image/color"
	"image/draw"

	"github.com/mandykoh/prism/zzverif/img"
)

var verifC10Geoms = 3
var verifC10Srcs = 11
var verifC10Dsts = 5
var verifC10Mode = 0

// opaque wrappers force the generic (interface) paths
type verifOpaqueDst struct{ draw.Image }
type verifOpaqueSrc struct{ image.Image }

// verifDst builds a destination of the chosen type whose bounds are `r` inside a
// parent one pixel larger on every side (so writes outside the sub-image are
// visible), every byte symbolic. It returns the image handed to the transform,
// the parent and the parent's storage.
func verifDst(kind int, r image.Rectangle) (draw.Image, draw.Image, []byte) {
	parent := r.Inset(-1)
	switch kind {
	case 0:
		m := image.NewRGBA64(parent)
		copy(m.Pix, verifBytes(len(m.Pix)))
		return m.SubImage(r).(draw.Image), m, m.Pix
	case 1:
		m := image.NewRGBA(parent)
		copy(m.Pix, verifBytes(len(m.Pix)))
		return m.SubImage(r).(draw.Image), m, m.Pix
	case 2:
		m := image.NewNRGBA(parent)
		copy(m.Pix, verifBytes(len(m.Pix)))
		return m.SubImage(r).(draw.Image), m, m.Pix
	case 3:
		m := image.NewNRGBA64(parent)
		copy(m.Pix, verifBytes(len(m.Pix)))
		return m.SubImage(r).(draw.Image), m, m.Pix
	default:
		m := image.NewRGBA64(parent)
		copy(m.Pix, verifBytes(len(m.Pix)))
		return verifOpaqueDst{m.SubImage(r).(draw.Image)}, m, m.Pix
	}
}

// verifClone makes an independent image of the same concrete type, geometry and content.
func verifClone(kind int, r image.Rectangle, pix []byte) (draw.Image, []byte) {
	parent := r.Inset(-1)
	switch kind {
	case 1:
		m := image.NewRGBA(parent)
		copy(m.Pix, pix)
		return m.SubImage(r).(draw.Image), m.Pix
	case 2:
		m := image.NewNRGBA(parent)
		copy(m.Pix, pix)
		return m.SubImage(r).(draw.Image), m.Pix
	case 3:
		m := image.NewNRGBA64(parent)
		copy(m.Pix, pix)
		return m.SubImage(r).(draw.Image), m.Pix
	default:
		m := image.NewRGBA64(parent)
		copy(m.Pix, pix)
		return m.SubImage(r).(draw.Image), m.Pix
	}
}

func verifKeyed(k []byte) func(color.Color) color.RGBA64 {
	// an arbitrary per-colour function, injective in every channel: XOR with symbolic keys
	return func(c color.Color) color.RGBA64 {
		r, g, b, a := c.RGBA()
		return color.RGBA64{
			R: uint16(r) ^ (uint16(k[0])<<8 | uint16(k[1])),
			G: uint16(g) ^ (uint16(k[2])<<8 | uint16(k[3])),
			B: uint16(b) ^ (uint16(k[4])<<8 | uint16(k[5])),
			A: uint16(a) ^ (uint16(k[6])<<8 | uint16(k[7])),
		}
	}
}

// VerifHarness_C10_Transform: after TransformImageColor(dst, src, par, f) the destination
// pixel at dst.Min + (p - src.Min) holds dst's colour-model conversion of f(src.At(p))
// for every p, and every other byte of the destination's parent is unchanged.
func VerifHarness_C10_Transform() {
	// mode 0: full product; mode 1: every source type x destination type on one
	// geometry; mode 2: every geometry x origin x parallelism on three type pairs
	var gi, srcKind, dstKind, oi, pi int
	opaque := false
	switch verifC10Mode {
	case 1:
		gi, oi, pi = 2, 1, 1
		srcKind, dstKind = verifChoice(verifC10Srcs), verifChoice(verifC10Dsts)
		opaque = verifChoice(2) == 1
	case 2:
		gi, oi, pi = verifChoice(verifC10Geoms), verifChoice(3), verifChoice(6)
		pair := [][2]int{{2, 0}, {4, 1}, {1, 4}}[verifChoice(3)]
		srcKind, dstKind = pair[0], pair[1]
	default:
		gi, oi, pi = verifChoice(verifC10Geoms), verifChoice(3), verifChoice(6)
		srcKind, dstKind = verifChoice(verifC10Srcs), verifChoice(verifC10Dsts)
		opaque = verifChoice(2) == 1
	}
	g := img.VerifGeoms[gi]
	src, _ := img.VerifSource(srcKind, g)
	if opaque {
		src = verifOpaqueSrc{src}
	}
	sb := src.Bounds()
	// destination: own origin, one column and one row larger than the source
	org := []image.Point{{0, 0}, {-3, 2}, {4, -1}}[oi]
	dr := image.Rect(org.X, org.Y, org.X+sb.Dx()+1, org.Y+sb.Dy()+1)
	dst, _, dpix := verifDst(dstKind, dr)
	ref, rpix := verifClone(dstKind, dr, dpix)
	f := verifKeyed(verifBytes(8))
	par := []int{1, 2, 3, 7, 16, sb.Dy() + 5}[pi]
	TransformImageColor(dst, src, par, f)
	verifReach("transformed")
	for y := sb.Min.Y; y < sb.Max.Y; y++ {
		for x := sb.Min.X; x < sb.Max.X; x++ {
			ref.Set(x-sb.Min.X+dr.Min.X, y-sb.Min.Y+dr.Min.Y, f(src.At(x, y)))
		}
	}
	verifAssert(verifEqBytes(dpix, rpix), "transform result differs from the per-pixel function applied at dst.Min+(p-src.Min), or pixels elsewhere were touched")
}

// VerifHarness_C10_InPlace: src == dst.
func VerifHarness_C10_InPlace() {
	g := img.VerifGeoms[verifChoice(verifC10Geoms)]
	kind := verifChoice(4) // RGBA64, RGBA, NRGBA, NRGBA64
	r := g.R
	img, _, pix := verifDst(kind, r)
	orig, _ := verifClone(kind, r, pix)
	ref, rpix := verifClone(kind, r, pix)
	f := verifKeyed(verifBytes(8))
	par := []int{1, 2, 3, 7, r.Dy() + 5}[verifChoice(5)]
	TransformImageColor(img, img, par, f)
	verifReach("transformed-inplace")
	for y := r.Min.Y; y < r.Max.Y; y++ {
		for x := r.Min.X; x < r.Max.X; x++ {
			ref.Set(x, y, f(orig.At(x, y)))
		}
	}
	verifAssert(verifEqBytes(pix, rpix), "in-place transform differs from the per-pixel function of the original pixels")
}

// VerifHarness_C10_NegControl: deliberately wrong expectation (destination offset ignored).
func VerifHarness_C10_NegControl() {
	src := image.NewRGBA(image.Rect(0, 0, 1, 1))
	copy(src.Pix, verifBytes(4))
	dr := image.Rect(2, 2, 4, 4)
	dst, _, dpix := verifDst(1, dr)
	ref, rpix := verifClone(1, dr, dpix)
	f := verifKeyed(verifBytes(8))
	TransformImageColor(dst, src, 1, f)
	ref.Set(3, 3, f(src.At(0, 0)))
	verifAssert(verifEqBytes(dpix, rpix), "negative control: result written at dst.Min+(1,1) (wrong on purpose)")
}
