package linear

// C02 level L1 (bit-precise IEEE-754, all 2^32 float32 values / all pairs):
// clamp, range and monotonicity of the three quantisers.

func verifQuantise(which int, x float32) (r uint32, max uint32) {
	switch which {
	case 0:
		return uint32(NormalisedTo8Bit(x)), 255
	case 1:
		return uint32(NormalisedTo9Bit(x)), 511
	default:
		return uint32(NormalisedTo16Bit(x)), 65535
	}
}

func VerifHarness_C02_Quantiser() {
	which := verifChoice(3)
	x := verifF32()
	r, max := verifQuantise(which, x)
	verifReach("quantised")
	verifAssert(verifImplies(x <= 0, r == 0), "quantiser: x <= 0 must give 0")
	verifAssert(verifImplies(x >= 1, r == max), "quantiser: x >= 1 must give the maximum code")
	verifAssert(r <= max, "quantiser: result out of range (NaN and every other bit pattern included)")
}

func VerifHarness_C02_Monotone() {
	which := verifChoice(3)
	a, b := verifF32(), verifF32()
	verifAssume(a <= b)
	ra, _ := verifQuantise(which, a)
	rb, _ := verifQuantise(which, b)
	verifReach("compared")
	verifAssert(ra <= rb, "quantiser: result decreases as x increases")
}

// VerifHarness_C02_Accuracy (reals + rounding-error variables): for 0 < x < 1 the code is
// within 0.5 + s_N of S*x, s_N = S*2^-23 + 2^-20 (two float32 roundings, DESIGN 3.1).
func VerifHarness_C02_Accuracy() {
	which := verifChoice(3)
	x := verifF32()
	verifAssume(verifAnd(x > 0, x < 1))
	var k, s float64
	switch which {
	case 0:
		k, s = float64(NormalisedTo8Bit(x)), 255
	case 1:
		k, s = float64(NormalisedTo9Bit(x)), 511
	default:
		k, s = float64(NormalisedTo16Bit(x)), 65535
	}
	tol := 0.5 + s/8388608 + 1.0/1048576
	d := k - s*float64(x)
	verifReach("measured")
	verifAssert(d <= tol, "quantiser: code more than 0.5+s_N above S*x")
	verifAssert(d >= -tol, "quantiser: code more than 0.5+s_N below S*x")
}

// VerifHarness_C02_MonotoneInterior (reals with rounding-error variables plus the
// monotonicity of IEEE rounding, truncation to an integer): 0 < a <= b < 1 implies
// N(a) <= N(b). Together with the clamp and range facts of VerifHarness_C02_Quantiser
// (a <= 0 gives 0, b >= 1 gives the maximum, results never exceed the maximum, NaN is
// never <= anything) this gives monotonicity for all pairs of float32 values.
func VerifHarness_C02_MonotoneInterior() {
	which := verifChoice(3)
	a, b := verifF32(), verifF32()
	verifAssume(verifAnd(verifAnd(a > 0, a <= b), b < 1))
	var ka, kb float64
	switch which {
	case 0:
		ka, kb = float64(NormalisedTo8Bit(a)), float64(NormalisedTo8Bit(b))
	case 1:
		ka, kb = float64(NormalisedTo9Bit(a)), float64(NormalisedTo9Bit(b))
	default:
		ka, kb = float64(NormalisedTo16Bit(a)), float64(NormalisedTo16Bit(b))
	}
	verifReach("compared-interior")
	verifAssert(ka <= kb, "quantiser: result decreases as x increases inside (0,1)")
}

// VerifHarness_C02_NegControl: deliberately wrong claim (8-bit quantiser never returns
// 255 below 1.0); must be reported as violated.
func VerifHarness_C02_NegControl() {
	x := verifF32()
	verifAssume(x < 1)
	verifAssert(NormalisedTo8Bit(x) < 255, "negative control: N8(x) < 255 for x < 1 (wrong on purpose)")
}

// ---------------- C14 ----------------

type verifColor struct{ r, g, b, a uint32 }

func (c verifColor) RGBA() (uint32, uint32, uint32, uint32) { return c.r, c.g, c.b, c.a }

// VerifHarness_C14_AlphaRoundTrip (bit-precise): quantising A/max gives back A for every
// 16-bit and every 8-bit alpha.
func VerifHarness_C14_AlphaRoundTrip() {
	a16 := verifU16()
	verifAssert(NormalisedTo16Bit(float32(a16)/65535) == a16, "N16(float32(A)/65535) != A")
	a8 := verifU8()
	verifAssert(NormalisedTo8Bit(float32(a8)/255) == a8, "N8(float32(A)/255) != A")
	verifReach("alpha-roundtrip")
}

var verifC14Lo = 1
var verifC14Hi = 65536
var verifC14Step = 16

// VerifHarness_C14_Premultiplied (reals with rounding-error variables, one scope per
// alpha value): for every alpha a in [lo,hi) (step-th values plus the extremes in the
// quick tier, all in the thorough tier) and every premultiplied channel r <= a
// (symbolic), decoding with any table value t <= r/65535 (the table lemma, discharged
// as ground obligations for all three tables) and re-quantising the premultiplied
// linear value gives a channel <= a. With a concrete the arithmetic is linear.
func VerifHarness_C14_Premultiplied() {
	for a := verifC14Lo; a < verifC14Hi; a++ {
		if a%verifC14Step != 0 && a > 4 && a < 65530 {
			continue
		}
		verifPush()
		r := verifU16()
		verifAssume(r <= uint16(a))
		t := verifF32()
		verifAssume(verifAnd(t >= 0, t <= float32(r)/65535))
		rgb, alpha := RGBFromEncoded(verifColor{uint32(r), uint32(r), uint32(r), uint32(a)}, func(uint16) float32 { return t })
		out := rgb.ToLinearRGBA64(alpha)
		verifAssert(float64(out.R) <= float64(a), "linearised premultiplied channel exceeds alpha")
		verifPop()
	}
	verifReach("premultiplied")
}

// VerifHarness_C14_NegControl: deliberately wrong claim (alpha 8-bit round trip through
// the 16-bit scale); must be reported as violated.
func VerifHarness_C14_NegControl() {
	a8 := verifU8()
	verifAssert(NormalisedTo8Bit(float32(a8)/65535) == a8, "negative control: N8(A/65535) == A (wrong on purpose)")
}
