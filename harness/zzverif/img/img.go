// Package img builds the symbolic source images shared by the C10 and C15 harnesses.
package img

import (
	"image"
	"image/color"
)

type VerifGeom struct {
	R      image.Rectangle // bounds of the image given to the helper
	Parent image.Rectangle // bounds of the allocated parent (== r when not a sub-image)
}

var VerifGeoms = []VerifGeom{
	{image.Rect(0, 0, 2, 2), image.Rect(0, 0, 2, 2)},
	{image.Rect(-2, 3, -1, 5), image.Rect(-2, 3, -1, 5)}, // 1x2, negative origin
	{image.Rect(1, 1, 3, 2), image.Rect(0, 0, 4, 3)},     // 2x1 sub-image, stride > width
	{image.Rect(3, -2, 3, 0), image.Rect(3, -2, 3, 0)},   // empty (zero width)
	{image.Rect(0, 0, 1, 1), image.Rect(0, 0, 1, 1)},     // 1x1
	{image.Rect(5, 5, 6, 8), image.Rect(4, 4, 8, 9)},     // 1x3 sub-image
	{image.Rect(0, 0, 3, 1), image.Rect(0, 0, 3, 1)},     // 3x1
	{image.Rect(-1, -1, 1, 1), image.Rect(-2, -2, 2, 2)}, // 2x2 sub-image around the origin
}

func Fill(pix []byte) {
	copy(pix, verifBytes(len(pix)))
}

// verifSource builds an image of the chosen standard-library type with the given
// geometry, every byte of pixel storage symbolic, and returns it together with
// its backing storage (to check that the helper does not modify it).
func VerifSource(kind int, g VerifGeom) (image.Image, [][]byte) {
	sub := func(img interface {
		SubImage(image.Rectangle) image.Image
	}) image.Image {
		return img.SubImage(g.R)
	}
	switch kind {
	case 0:
		m := image.NewRGBA(g.Parent)
		Fill(m.Pix)
		return sub(m), [][]byte{m.Pix}
	case 1:
		m := image.NewNRGBA(g.Parent)
		Fill(m.Pix)
		return sub(m), [][]byte{m.Pix}
	case 2:
		m := image.NewRGBA64(g.Parent)
		Fill(m.Pix)
		return sub(m), [][]byte{m.Pix}
	case 3:
		m := image.NewNRGBA64(g.Parent)
		Fill(m.Pix)
		return sub(m), [][]byte{m.Pix}
	case 4:
		m := image.NewGray(g.Parent)
		Fill(m.Pix)
		return sub(m), [][]byte{m.Pix}
	case 5:
		m := image.NewGray16(g.Parent)
		Fill(m.Pix)
		return sub(m), [][]byte{m.Pix}
	case 6:
		m := image.NewCMYK(g.Parent)
		Fill(m.Pix)
		return sub(m), [][]byte{m.Pix}
	case 7:
		pal := color.Palette{}
		for i := 0; i < 2; i++ {
			c := verifBytes(4)
			pal = append(pal, color.NRGBA{c[0], c[1], c[2], c[3]})
		}
		m := image.NewPaletted(g.Parent, pal)
		Fill(m.Pix)
		for i := range m.Pix {
			verifAssume(m.Pix[i] < 2)
		}
		return sub(m), [][]byte{m.Pix}
	case 8:
		m := image.NewAlpha(g.Parent)
		Fill(m.Pix)
		return sub(m), [][]byte{m.Pix}
	default:
		ratios := []image.YCbCrSubsampleRatio{image.YCbCrSubsampleRatio444, image.YCbCrSubsampleRatio422, image.YCbCrSubsampleRatio420, image.YCbCrSubsampleRatio440, image.YCbCrSubsampleRatio411, image.YCbCrSubsampleRatio410}
		// image.NewYCbCr mis-sizes the chroma planes for negative coordinates with the
		// 4:1:1 / 4:1:0 ratios (x/4 truncates toward zero) and the standard library
		// itself then panics; that is not prism's: use the same shape at a positive origin
		if g.Parent.Min.X < 0 || g.Parent.Min.Y < 0 {
			d := image.Pt(5-g.Parent.Min.X, 5-g.Parent.Min.Y)
			g = VerifGeom{g.R.Add(d), g.Parent.Add(d)}
		}
		m := image.NewYCbCr(g.Parent, ratios[(kind-9)%6])
		Fill(m.Y)
		Fill(m.Cb)
		Fill(m.Cr)
		return sub(m), [][]byte{m.Y, m.Cb, m.Cr}
	}
}

// VerifPaletteCopy returns the palette entries of a paletted source built by VerifSource
// (all color.NRGBA), nil for any other image.
func VerifPaletteCopy(src image.Image) []color.NRGBA {
	p, ok := src.(*image.Paletted)
	if !ok {
		return nil
	}
	var out []color.NRGBA
	for _, c := range p.Palette {
		n, _ := c.(color.NRGBA)
		out = append(out, n)
	}
	return out
}

// VerifPaletteIntact reports whether the palette of a paletted source still holds the same
// entries, of the same dynamic type (the palette is part of the input image).
func VerifPaletteIntact(src image.Image, before []color.NRGBA) bool {
	p, ok := src.(*image.Paletted)
	if !ok {
		return true
	}
	if len(p.Palette) != len(before) {
		return false
	}
	for i, c := range p.Palette {
		n, isN := c.(color.NRGBA)
		if !isN || n != before[i] {
			return false
		}
	}
	return true
}
