// Package rd provides the input sources used by the verification harnesses:
// an io.Reader over a byte slice with a configurable delivery schedule, an
// optional I/O failure point, and exact accounting of what was delivered.
// It is plain Go and is executed symbolically like the code under test.
package rd

import (
	"errors"
	"io"
)

var ErrInjected = errors.New("injected I/O error")

type Source struct {
	Data        []byte
	Pos         int
	Chunk       int  // max bytes per Read (0 = unlimited)
	FailAt      int  // <0: never; else after FailAt bytes Read returns ErrInjected
	EOFWithData bool // deliver the final bytes together with io.EOF / the error
	Delivered   int
	Reads       int
}

func New(data []byte) *Source { return &Source{Data: data, FailAt: -1} }

func (s *Source) Read(p []byte) (int, error) {
	s.Reads++
	if len(p) == 0 {
		return 0, nil
	}
	limit := len(s.Data)
	var final error = io.EOF
	if s.FailAt >= 0 && s.FailAt <= limit {
		limit = s.FailAt
		final = ErrInjected
	}
	if s.Pos >= limit {
		return 0, final
	}
	n := limit - s.Pos
	if n > len(p) {
		n = len(p)
	}
	if s.Chunk > 0 && n > s.Chunk {
		n = s.Chunk
	}
	copy(p, s.Data[s.Pos:s.Pos+n])
	s.Pos += n
	s.Delivered += n
	if s.EOFWithData && s.Pos >= limit {
		return n, final
	}
	return n, nil
}

// Drain reads r to its end with a small buffer and returns everything read and
// the terminating error (io.EOF is reported as nil). It gives up after max reads.
func Drain(r io.Reader, max int) (out []byte, err error, gaveUp bool) {
	var buf [7]byte
	for i := 0; i < max; i++ {
		n, e := r.Read(buf[:])
		out = append(out, buf[:n]...)
		if e != nil {
			if e == io.EOF {
				return out, nil, false
			}
			return out, e, false
		}
	}
	return out, nil, true
}
