package prophotorgb

import (
	"image/color"
	"math"

	"github.com/mandykoh/prism/linear"
)

// VerifTouchTables forces the lazily built 16-bit tables into existence.
func VerifTouchTables() {
	_ = From16Bit(0)
	_ = From16Bit(32768)
	_ = To16Bit(0)
	_ = To16Bit(0.5)
}

func verifFNV(h uint64, v uint64, bytes int) uint64 {
	for i := 0; i < bytes; i++ {
		h ^= (v >> (8 * uint(i))) & 0xff
		h *= 1099511628211
	}
	return h
}

// VerifHarness_Tables builds all eight tables and reports an FNV-1a hash of their
// contents as a reach label. The executor runs this concretely (its own float
// arithmetic, conversions and constant folding, native math.Pow) and the native build
// runs it too; the framework requires both labels to agree, which validates the
// executor's table construction bit for bit against the compiler's.
func VerifHarness_Tables() {
	VerifTouchTables()
	h := uint64(14695981039346656037)
	for _, f := range encoded8ToLinearLUT {
		h = verifFNV(h, uint64(math.Float32bits(f)), 4)
	}
	for _, f := range encoded16ToLinearLUT {
		h = verifFNV(h, uint64(math.Float32bits(f)), 4)
	}
	for _, b := range linearToEncoded8LUT {
		h = verifFNV(h, uint64(b), 1)
	}
	for _, w := range linearToEncoded16LUT {
		h = verifFNV(h, uint64(w), 2)
	}
	const hex = "0123456789abcdef"
	label := []byte("tables-fnv-")
	for i := 60; i >= 0; i -= 4 {
		label = append(label, hex[(h>>uint(i))&15])
	}
	verifReach(string(label))
}

// VerifHarness_C02_Wiring (bit-precise floats, tables abstracted as uninterpreted
// functions refined on demand): each encoder returns this package's own table entry at
// the index given by the matching quantiser - on the first call (tables built under the
// sync.Once) and on later calls (fast path) - and the colour types apply the right
// encoder to the right channel.
func VerifHarness_C02_Wiring() {
	x := verifF32()
	first := To16Bit(x) // first use: sync.Once path
	VerifTouchTables()  // a first call that bypasses the table must not turn into an index panic in this harness
	verifAssert(first == linearToEncoded16LUT[linear.NormalisedTo16Bit(x)], "To16Bit (first use) is not LUT16[N16(x)]")
	verifAssert(To16Bit(x) == linearToEncoded16LUT[linear.NormalisedTo16Bit(x)], "To16Bit (fast path) is not LUT16[N16(x)]")
	verifAssert(To8Bit(x) == linearToEncoded8LUT[linear.NormalisedTo9Bit(x)], "To8Bit is not LUT8[N9(x)]")
	verifAssert(len(linearToEncoded8LUT) == 512, "8-bit encode table does not have 512 entries")
	verifAssert(len(linearToEncoded16LUT) == 65536, "16-bit encode table does not have 65536 entries")
	// colour types
	g, b, a := verifF32(), verifF32(), verifF32()
	c := ColorFromLinear(x, g, b)
	n := c.ToNRGBA(a)
	verifAssert(verifAnd(verifAnd(n.R == To8Bit(x), n.G == To8Bit(g)), verifAnd(n.B == To8Bit(b), n.A == linear.NormalisedTo8Bit(a))), "ToNRGBA does not encode R,G,B with To8Bit and alpha with the 8-bit quantiser")
	p := c.ToRGBA(a)
	verifAssert(verifAnd(verifAnd(p.R == To8Bit(x*a), p.G == To8Bit(g*a)), verifAnd(p.B == To8Bit(b*a), p.A == linear.NormalisedTo8Bit(a))), "ToRGBA does not encode premultiplied channels with To8Bit")
	q := c.ToRGBA64(a)
	verifAssert(verifAnd(verifAnd(q.R == To16Bit(x*a), q.G == To16Bit(g*a)), verifAnd(q.B == To16Bit(b*a), q.A == linear.NormalisedTo16Bit(a))), "ToRGBA64 does not encode premultiplied channels with To16Bit")
	verifReach("wired")
}

// VerifHarness_C01_Wiring: every public decode entry point returns this package's own
// table entry for the code it is given (8-bit: T8[v], 16-bit: T16[v], first use and fast
// path), and the colour constructors applied to opaque colours return exactly those.
func VerifHarness_C01_Wiring() {
	v16 := verifU16()
	first := From16Bit(v16) // first use: sync.Once path
	VerifTouchTables()
	verifAssert(verifSameF32(first, encoded16ToLinearLUT[v16]), "From16Bit (first use) is not T16[v]")
	verifAssert(verifSameF32(From16Bit(v16), encoded16ToLinearLUT[v16]), "From16Bit (fast path) is not T16[v]")
	v8 := verifU8()
	verifAssert(verifSameF32(From8Bit(v8), encoded8ToLinearLUT[v8]), "From8Bit is not T8[v]")
	verifAssert(len(encoded8ToLinearLUT) == 256, "8-bit decode table does not have 256 entries")
	verifAssert(len(encoded16ToLinearLUT) == 65536, "16-bit decode table does not have 65536 entries")
	g8, b8 := verifU8(), verifU8()
	cn, an := ColorFromNRGBA(color.NRGBA{R: v8, G: g8, B: b8, A: 255})
	verifAssert(verifAnd(verifAnd(verifSameF32(cn.R, From8Bit(v8)), verifSameF32(cn.G, From8Bit(g8))), verifAnd(verifSameF32(cn.B, From8Bit(b8)), an == 1)), "ColorFromNRGBA(opaque) is not (T8[R],T8[G],T8[B]), alpha 1")
	cr, ar := ColorFromRGBA(color.RGBA{R: v8, G: g8, B: b8, A: 255})
	verifAssert(verifAnd(verifAnd(verifSameF32(cr.R, From8Bit(v8)), verifSameF32(cr.G, From8Bit(g8))), verifAnd(verifSameF32(cr.B, From8Bit(b8)), ar == 1)), "ColorFromRGBA(opaque) is not (T8[R],T8[G],T8[B]), alpha 1")
	g16, b16 := verifU16(), verifU16()
	ce, ae := ColorFromEncodedColor(color.RGBA64{R: v16, G: g16, B: b16, A: 65535})
	verifAssert(verifAnd(verifAnd(verifSameF32(ce.R, From16Bit(v16)), verifSameF32(ce.G, From16Bit(g16))), verifAnd(verifSameF32(ce.B, From16Bit(b16)), ae == 1)), "ColorFromEncodedColor(opaque RGBA64) is not (T16[R],T16[G],T16[B]), alpha 1")
	// the generic constructor on every standard opaque colour type (8-bit components are
	// widened to 257*v by the colour's RGBA method), and LineariseColor on top of it
	t8 := func(v uint8) float32 { return encoded16ToLinearLUT[uint16(uint32(v)|uint32(v)<<8)] } // 257*v, written as image/color widens it
	same3 := func(c Color, r, g, b float32) bool {
		return verifAnd(verifSameF32(c.R, r), verifAnd(verifSameF32(c.G, g), verifSameF32(c.B, b)))
	}
	c1, a1 := ColorFromEncodedColor(color.NRGBA{R: v8, G: g8, B: b8, A: 255})
	verifAssert(verifAnd(same3(c1, t8(v8), t8(g8), t8(b8)), a1 == 1), "ColorFromEncodedColor(opaque NRGBA) is not (T16[257R],T16[257G],T16[257B]), alpha 1")
	c2, a2 := ColorFromEncodedColor(color.RGBA{R: v8, G: g8, B: b8, A: 255})
	verifAssert(verifAnd(same3(c2, t8(v8), t8(g8), t8(b8)), a2 == 1), "ColorFromEncodedColor(opaque RGBA) is not (T16[257R],T16[257G],T16[257B]), alpha 1")
	c3, a3 := ColorFromEncodedColor(color.NRGBA64{R: v16, G: g16, B: b16, A: 65535})
	verifAssert(verifAnd(same3(c3, encoded16ToLinearLUT[v16], encoded16ToLinearLUT[g16], encoded16ToLinearLUT[b16]), a3 == 1), "ColorFromEncodedColor(opaque NRGBA64) is not (T16[R],T16[G],T16[B]), alpha 1")
	c4, a4 := ColorFromEncodedColor(color.Gray{Y: v8})
	verifAssert(verifAnd(same3(c4, t8(v8), t8(v8), t8(v8)), a4 == 1), "ColorFromEncodedColor(Gray) is not T16[257Y] on all channels, alpha 1")
	c5, a5 := ColorFromEncodedColor(color.Gray16{Y: v16})
	verifAssert(verifAnd(same3(c5, encoded16ToLinearLUT[v16], encoded16ToLinearLUT[v16], encoded16ToLinearLUT[v16]), a5 == 1), "ColorFromEncodedColor(Gray16) is not T16[Y] on all channels, alpha 1")
	l1 := LineariseColor(color.NRGBA{R: v8, G: g8, B: b8, A: 255})
	verifAssert(verifAnd(verifAnd(l1.R == linear.NormalisedTo16Bit(t8(v8)), l1.G == linear.NormalisedTo16Bit(t8(g8))), verifAnd(l1.B == linear.NormalisedTo16Bit(t8(b8)), l1.A == 65535)), "LineariseColor(opaque NRGBA) is not the 16-bit quantiser of (T16[257R],T16[257G],T16[257B]), alpha 65535")
	verifReach("wired")
}

// VerifHarness_C01_NegControl: deliberately wrong expectation (From8Bit(v) claimed to be
// the 16-bit table entry at v instead of 257*v); must be reported as violated.
func VerifHarness_C01_NegControl() {
	v8 := verifU8()
	_ = From16Bit(0)
	verifAssert(verifSameF32(From8Bit(v8), encoded16ToLinearLUT[uint16(v8)]), "negative control: From8Bit(v) == T16[v] (wrong on purpose)")
}
