package pngmeta

import (
	"github.com/mandykoh/prism/meta"
	"github.com/mandykoh/prism/zzverif/rd"
)

// VerifSameMeta asserts that two extraction outcomes are identical.
func VerifSameMeta(md1 *meta.Data, err1 error, md2 *meta.Data, err2 error) {
	verifAssert((err1 == nil) == (err2 == nil), "success/error outcome depends on read segmentation")
	verifAssert((md1 == nil) == (md2 == nil), "metadata presence depends on read segmentation")
	if md1 == nil || md2 == nil {
		return
	}
	verifAssert(md1.Format == md2.Format, "Format depends on read segmentation")
	verifAssert(md1.PixelWidth == md2.PixelWidth, "PixelWidth depends on read segmentation")
	verifAssert(md1.PixelHeight == md2.PixelHeight, "PixelHeight depends on read segmentation")
	verifAssert(md1.BitsPerComponent == md2.BitsPerComponent, "BitsPerComponent depends on read segmentation")
	d1, e1 := md1.ICCProfileData()
	d2, e2 := md2.ICCProfileData()
	verifAssert((e1 == nil) == (e2 == nil), "ICC error outcome depends on read segmentation")
	verifAssert((d1 == nil) == (d2 == nil), "ICC presence depends on read segmentation")
	verifAssert(verifEqBytes(d1, d2), "ICC bytes depend on read segmentation")
}

func verifSegmented(in []byte) {
	VerifInstallZlibStub()
	md1, _, err1 := Load(rd.New(in))
	src := rd.New(in)
	src.Chunk = []int{1, 2, 3, 7}[verifChoice(4)]
	src.EOFWithData = verifChoice(2) == 1
	md2, _, err2 := Load(src)
	verifReach("both-loaded")
	VerifSameMeta(md1, err1, md2, err2)
}

// VerifHarness_C08_PNG_Arbitrary: N arbitrary bytes, full delivery vs. chunked delivery.
func VerifHarness_C08_PNG_Arbitrary() {
	verifSegmented(verifBytes(verifC08N))
}

// VerifHarness_C08_PNG_Skeleton: well-formed skeletons (with symbolic fields).
func VerifHarness_C08_PNG_Skeleton() {
	var in []byte
	switch verifChoice(3) {
	case 0:
		// optionally with a 300-byte tEXt chunk (far more than a hundred reads from a
		// source that delivers 1-3 bytes per call)
		VerifBigAncillary = []int{0, 300}[verifChoice(2)]
		in, _ = VerifBuildPNG(verifChoice(2))
	case 1: // with an embedded profile (the compressed bytes reach the inflate stub)
		in, _, _, _ = VerifBuildPNGICC(verifChoice(2), 1, 8)
	default:
		in, _, _, _ = VerifBuildPNGICC(0, 2, 40)
	}
	verifSegmented(in)
}

// VerifHarness_C08_NegControl: deliberately wrong claim (a source failing after 10 bytes gives
// the same outcome as a complete one); must be reported as violated.
func VerifHarness_C08_NegControl() {
	in, _ := VerifBuildPNG(0)
	md1, _, err1 := Load(rd.New(in))
	src := rd.New(in)
	src.FailAt = 10
	md2, _, err2 := Load(src)
	VerifSameMeta(md1, err1, md2, err2)
}
