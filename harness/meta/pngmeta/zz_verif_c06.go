package pngmeta

import "bytes"

var verifC06Shapes = 4

// (name length, compressed length) shapes; the later ones straddle bufio's 4096-byte buffer.
var verifICCPShapes = [][2]int{{1, 8}, {2, 5}, {79, 8}, {1, 4060}, {1, 4070}, {3, 5000}}

// VerifBuildPNGICC builds signature, IHDR, `pre` ancillary chunks, an iCCP chunk with a
// name of nameLen symbolic non-zero bytes, compression method 0 and zlen symbolic
// compressed bytes, and the start of IDAT. It returns the file, the compressed bytes
// and the offset just past the iCCP chunk.
func VerifBuildPNGICC(pre int, nameLen, zlen int) (in []byte, ihdr []byte, z []byte, end int) {
	in = append(in, VerifSig...)
	in = append(in, verifPutBE32(13)...)
	in = append(in, "IHDR"...)
	ihdr = verifBytes(13)
	in = append(in, ihdr...)
	in = append(in, verifBytes(4)...)
	in = VerifAncillary(in, pre)
	in = append(in, verifPutBE32(nameLen+2+zlen)...)
	in = append(in, "iCCP"...)
	name := verifBytes(nameLen)
	for i := range name {
		verifAssume(name[i] != 0)
	}
	in = append(in, name...)
	in = append(in, 0, 0)
	z = verifBytes(zlen)
	in = append(in, z...)
	in = append(in, verifBytes(4)...)
	end = len(in)
	in = append(in, verifPutBE32(3)...)
	in = append(in, "IDAT"...)
	in = append(in, verifBytes(7)...)
	return in, ihdr, z, end
}

// VerifHarness_C06_PNG: the bytes handed to inflate are exactly the chunk's compressed
// bytes; on inflate success the accessor returns exactly inflate's output; on inflate
// failure basic metadata is still returned and the accessor reports an error.
func VerifHarness_C06_PNG() {
	VerifInstallZlibStub()
	shape := verifICCPShapes[verifChoice(verifC06Shapes)]
	pre := verifChoice(2)
	in, ihdr, z, _ := VerifBuildPNGICC(pre, shape[0], shape[1])
	md, _, err := Load(bytes.NewReader(in))
	verifAssert(verifAnd(err == nil, md != nil), "PNG with iCCP: basic metadata not returned")
	if err != nil || md == nil {
		return
	}
	verifAssert(md.PixelWidth == verifBE32(ihdr[0:4]), "PNG with iCCP: PixelWidth")
	verifAssert(len(VerifZlibIn) == 1, "PNG iCCP: inflate not invoked exactly once")
	if len(VerifZlibIn) != 1 {
		return
	}
	verifAssert(verifEqBytes(VerifZlibIn[0], z), "PNG iCCP: bytes given to inflate differ from the chunk's compressed bytes")
	data, perr := md.ICCProfileData()
	if VerifZlibMode[0] == 1 {
		verifReach("png-iccp-ok")
		verifAssert(perr == nil, "PNG iCCP: inflate succeeded but accessor reports an error")
		verifAssert(verifEqBytes(data, VerifZlibOut[0]), "PNG iCCP: bytes differ from inflate's output")
	} else {
		verifReach("png-iccp-corrupt")
		verifAssert(data == nil, "PNG iCCP: corrupt deflate stream but bytes were returned")
		verifAssert(perr != nil, "PNG iCCP: corrupt deflate stream but no error reported")
	}
}

// VerifHarness_C06_PNG_LongName: 80 name bytes without terminator is not a valid iCCP.
func VerifHarness_C06_PNG_LongName() {
	VerifInstallZlibStub()
	in := append([]byte{}, VerifSig...)
	in = append(in, verifPutBE32(13)...)
	in = append(in, "IHDR"...)
	in = append(in, verifBytes(17)...)
	in = append(in, verifPutBE32(100)...)
	in = append(in, "iCCP"...)
	name := verifBytes(80)
	for i := range name {
		verifAssume(name[i] != 0)
	}
	in = append(in, name...)
	in = append(in, verifBytes(24)...)
	md, _, err := Load(bytes.NewReader(in))
	verifReach("png-longname")
	if err == nil && md != nil {
		data, _ := md.ICCProfileData()
		verifAssert(data == nil, "PNG iCCP with unterminated 80-byte name: profile bytes returned")
	}
}

var verifC06BigSizes = 2

// VerifHarness_C06_PNG_Large: profiles of 64 KiB+1, 1 MiB+1 and 3 MiB (inflate stub output
// of that size, concrete content) come back byte for byte.
func VerifHarness_C06_PNG_Large() {
	verifZlibBigOut = []int{65537, 1<<20 + 1, 3 << 20}[verifChoice(verifC06BigSizes)]
	VerifInstallZlibStub()
	in, _, _, _ := VerifBuildPNGICC(0, 1, 8)
	md, _, err := Load(bytes.NewReader(in))
	verifAssert(verifAnd(err == nil, md != nil), "PNG with large iCCP: basic metadata not returned")
	if err != nil || md == nil || len(VerifZlibMode) != 1 {
		return
	}
	data, perr := md.ICCProfileData()
	if VerifZlibMode[0] == 1 {
		verifReach("png-iccp-large")
		verifAssert(perr == nil, "large PNG iCCP: accessor reports an error")
		verifAssert(len(data) == len(VerifZlibOut[0]), "large PNG iCCP: returned profile has a different length than inflate's output")
		verifAssert(verifEqBytes(data, VerifZlibOut[0]), "large PNG iCCP: bytes differ from inflate's output")
	}
}
