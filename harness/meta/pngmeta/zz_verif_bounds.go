package pngmeta

// Bounds of the arbitrary-byte harnesses (quick tier values; the thorough tier
// overrides them through the engine's constant hook).
var verifC07N = 40
var verifC08N = 24
var verifC09N = 28
