package pngmeta

import (
	"compress/zlib"
	"errors"
	"io"

	"github.com/mandykoh/prism/zzverif/rd"
)

// Stub for compress/zlib.NewReader (inflate is outside the reach of the
// executor and outside the claim). It drains the reader it is given, records
// exactly which bytes were offered for decompression, and then - by symbolic
// choice - fails at open, yields fresh symbolic bytes, or yields them and then
// fails. Installed through the hook variable added to compress/zlib by the
// verification overlay (identically for the symbolic and the native run).

var VerifZlibIn [][]byte
var VerifZlibOut [][]byte
var VerifZlibMode []int
var verifZlibOutLen = 5
var verifZlibBigOut = 0

var errVerifZlib = errors.New("zlib: stub failure")

type verifZlibReader struct {
	data []byte
	pos  int
	fail bool
}

func (z *verifZlibReader) Read(p []byte) (int, error) {
	if z.pos >= len(z.data) {
		if z.fail {
			return 0, errVerifZlib
		}
		return 0, io.EOF
	}
	n := copy(p, z.data[z.pos:])
	z.pos += n
	return n, nil
}

func (z *verifZlibReader) Close() error { return nil }

func verifZlibStub(r io.Reader) (io.ReadCloser, error) {
	in, _, _ := rd.Drain(r, 1<<20)
	// deterministic in its input: the same compressed bytes inflate the same way
	for i, prev := range VerifZlibIn {
		// (semantic equality, decided by the solver: the path forks on it, so on the
		// "different" side the model really makes the bytes differ and the native stub -
		// which compares values - takes the same side)
		if verifEqBytes(prev, in) {
			VerifZlibIn = append(VerifZlibIn, in)
			VerifZlibMode = append(VerifZlibMode, VerifZlibMode[i])
			VerifZlibOut = append(VerifZlibOut, VerifZlibOut[i])
			if VerifZlibMode[i] == 0 {
				return nil, errVerifZlib
			}
			return &verifZlibReader{data: VerifZlibOut[i], fail: VerifZlibMode[i] == 2}, nil
		}
	}
	VerifZlibIn = append(VerifZlibIn, in)
	mode := verifChoice(3)
	VerifZlibMode = append(VerifZlibMode, mode)
	if mode == 0 {
		VerifZlibOut = append(VerifZlibOut, nil)
		return nil, errVerifZlib
	}
	var out []byte
	if verifZlibBigOut > 0 {
		// a large profile: content concrete (the checks compare it byte for byte with what
		// the accessor returns; its values do not influence any branch)
		out = make([]byte, verifZlibBigOut)
		for i := 0; i < len(out); i += 4099 {
			out[i] = byte(i>>8) | 1
		}
	} else {
		out = verifBytes(verifZlibOutLen)
	}
	VerifZlibOut = append(VerifZlibOut, out)
	return &verifZlibReader{data: out, fail: mode == 2}, nil
}

func VerifInstallZlibStub() {
	VerifZlibIn, VerifZlibOut, VerifZlibMode = nil, nil, nil
	zlib.VerifHook = verifZlibStub
}
