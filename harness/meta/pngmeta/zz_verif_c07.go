package pngmeta

import "github.com/mandykoh/prism/zzverif/rd"

// verifStreamReplays asserts the C07 contract for one call of Load on src.
func verifStreamReplays(src *rd.Source, in []byte) {
	VerifInstallZlibStub()
	_, stream, _ := Load(src)
	verifAssert(stream != nil, "stream is nil")
	if stream == nil {
		return
	}
	out, err, gaveUp := rd.Drain(stream, 4*len(in)+16)
	verifAssert(!gaveUp, "stream does not terminate")
	want := in
	if src.FailAt >= 0 && src.FailAt <= len(in) {
		want = in[:src.FailAt]
		verifAssert(err == rd.ErrInjected, "stream does not surface the source's I/O error")
	} else {
		verifAssert(err == nil, "stream ends with an error although the source did not fail")
	}
	verifAssert(verifEqBytes(out, want), "stream bytes differ from the source bytes")
	verifReach("drained")
}

// VerifHarness_C07_PNG_Arbitrary: N arbitrary bytes, every truncation length.
func VerifHarness_C07_PNG_Arbitrary() {
	n := verifChoice(verifC07N + 1)
	in := verifBytes(n)
	verifStreamReplays(rd.New(in), in)
}

// VerifHarness_C07_PNG_Fault: arbitrary bytes, I/O error after e bytes, delivery
// in chunks of c bytes, final data optionally together with the error/EOF.
func VerifHarness_C07_PNG_Fault() {
	in := verifBytes(verifC07N)
	src := rd.New(in)
	src.FailAt = verifChoice(verifC07N+2) - 1
	src.Chunk = []int{0, 1, 3}[verifChoice(3)]
	src.EOFWithData = verifChoice(2) == 1
	verifStreamReplays(src, in)
}

// VerifHarness_C07_PNG_Skeleton: well-formed skeleton (C05 shape) followed by symbolic
// data, truncated at every length.
func VerifHarness_C07_PNG_Skeleton() {
	full, _ := VerifBuildPNG(verifChoice(2))
	n := verifChoice(len(full) + 1)
	in := full[:n]
	verifStreamReplays(rd.New(in), in)
}

// VerifHarness_C07_NegControl: deliberately wrong expectation (the stream is
// claimed to skip the first byte); must be reported as violated.
func VerifHarness_C07_NegControl() {
	in := verifBytes(12)
	_, stream, _ := Load(rd.New(in))
	out, _, _ := rd.Drain(stream, 100)
	verifAssert(verifEqBytes(out, in[1:]), "negative control: stream equals input minus first byte (wrong on purpose)")
}
