package pngmeta

import (
	"github.com/mandykoh/prism/meta"
	"github.com/mandykoh/prism/zzverif/rd"
)

// VerifHostileBudget installs the C09 budgets for an n-byte input: allocated bytes
// <= 16n + 128 KiB, executed SSA instructions <= 4000n + 200000 (DESIGN 3.5).
func VerifHostileBudget(n int) { verifSetBudget(16*n+131072, 4000*n+200000) }

// VerifUseMetadata exercises the accessors reachable from the metadata.
func VerifUseMetadata(md *meta.Data) {
	if md == nil {
		return
	}
	p, err := md.ICCProfile()
	if err == nil && p != nil {
		_, _ = p.Description()
	}
	_, _ = md.ICCProfileData()
}

// VerifHarness_C09_PNG_Arbitrary: N arbitrary bytes (so every length, count and offset
// field the parser reads is an unconstrained symbolic word). No panic may escape,
// and the allocation and step budgets hold on every path.
func VerifHarness_C09_PNG_Arbitrary() {
	VerifInstallZlibStub()
	in := verifBytes(verifC09N)
	VerifHostileBudget(len(in))
	md, _, _ := Load(rd.New(in))
	VerifUseMetadata(md)
	verifReach("returned")
}

// VerifHarness_C09_PNG_Chunks: signature, IHDR, then an iCCP chunk and a further chunk
// whose declared lengths are unconstrained 32-bit words.
func VerifHarness_C09_PNG_Chunks() {
	VerifInstallZlibStub()
	in := append([]byte{}, VerifSig...)
	in = append(in, verifBytes(4)...) // IHDR length: symbolic
	in = append(in, "IHDR"...)
	in = append(in, verifBytes(17)...)
	in = append(in, verifBytes(4)...) // iCCP length: symbolic
	in = append(in, "iCCP"...)
	in = append(in, 'n', 0, 0)
	in = append(in, verifBytes(8)...)
	in = append(in, verifBytes(8)...) // next chunk header, symbolic
	in = append(in, verifBytes(4)...)
	VerifHostileBudget(len(in))
	md, _, _ := Load(rd.New(in))
	VerifUseMetadata(md)
	verifReach("returned")
}

// VerifHarness_C09_NegControl: deliberately too small budget (1 KiB: below bufio's own
// buffer); must be reported as violated.
func VerifHarness_C09_NegControl() {
	in, _ := VerifBuildPNG(0)
	verifSetBudget(1024, 0)
	_, _, _ = Load(rd.New(in))
}
