package pngmeta

import "bytes"

func verifIs4(b []byte, s string) bool {
	return verifAnd(verifAnd(b[0] == s[0], b[1] == s[1]), verifAnd(b[2] == s[2], b[3] == s[3]))
}

func verifPutBE32(n int) []byte {
	return []byte{byte(n >> 24), byte(n >> 16), byte(n >> 8), byte(n)}
}

func verifBE32(b []byte) uint32 {
	return uint32(b[0])<<24 | uint32(b[1])<<16 | uint32(b[2])<<8 | uint32(b[3])
}

var VerifSig = []byte{0x89, 'P', 'N', 'G', 0x0D, 0x0A, 0x1A, 0x0A}

// VerifAncillary appends k chunks whose 4 type bytes are symbolic (anything but
// IHDR, iCCP, IDAT, IEND), with lengths chosen from {0,1,5}, symbolic payload and CRC.
func VerifAncillary(in []byte, k int) []byte {
	for i := 0; i < k; i++ {
		n := []int{0, 1, 5}[verifChoice(3)]
		typ := verifBytes(4)
		verifAssume(!verifIs4(typ, "IHDR"))
		verifAssume(!verifIs4(typ, "iCCP"))
		verifAssume(!verifIs4(typ, "IDAT"))
		verifAssume(!verifIs4(typ, "IEND"))
		in = append(in, verifPutBE32(n)...)
		in = append(in, typ...)
		in = append(in, verifBytes(n+4)...)
	}
	return in
}

// VerifBuildPNG builds signature, IHDR (13 symbolic bytes: all widths, heights, bit
// depths, colour types, interlace bytes at once, symbolic CRC), k ancillary chunks,
// and the start of an IDAT chunk. It returns the file and the IHDR payload.
// VerifBigAncillary > 0 makes VerifBuildPNG insert a tEXt chunk of that many (concrete)
// bytes right after IHDR: an ancillary structure longer than an internal buffer, or than
// what a slow source delivers in a hundred reads.
var VerifBigAncillary = 0

func VerifBuildPNG(k int) (in []byte, ihdr []byte) {
	in = append(in, VerifSig...)
	in = append(in, verifPutBE32(13)...)
	in = append(in, "IHDR"...)
	ihdr = verifBytes(13)
	in = append(in, ihdr...)
	in = append(in, verifBytes(4)...)
	if VerifBigAncillary > 0 {
		in = append(in, verifPutBE32(VerifBigAncillary)...)
		in = append(in, "tEXt"...)
		in = append(in, make([]byte, VerifBigAncillary)...)
		in = append(in, 0, 0, 0, 0)
	}
	in = VerifAncillary(in, k)
	in = append(in, verifPutBE32(3)...)
	in = append(in, "IDAT"...)
	in = append(in, verifBytes(7)...)
	return in, ihdr
}

var verifC05K = 3

func VerifHarness_C05_PNG() {
	k := verifChoice(verifC05K)
	in, ihdr := VerifBuildPNG(k)
	md, _, err := Load(bytes.NewReader(in))
	verifAssert(err == nil, "well-formed PNG rejected")
	if err != nil || md == nil {
		return
	}
	verifReach("png-parsed")
	verifAssert(md.PixelWidth == verifBE32(ihdr[0:4]), "PNG PixelWidth = BE32 IHDR+0")
	verifAssert(md.PixelHeight == verifBE32(ihdr[4:8]), "PNG PixelHeight = BE32 IHDR+4")
	verifAssert(md.BitsPerComponent == uint32(ihdr[8]), "PNG BitsPerComponent = IHDR+8")
	verifAssert(md.Format == "PNG", "PNG Format = PNG")
	data, perr := md.ICCProfileData()
	verifAssert(verifAnd(data == nil, perr == nil), "PNG without iCCP: profile must be (nil, nil)")
}

// VerifHarness_C05_PNG_ICC: the basic fields of a PNG that carries an iCCP chunk (profile
// names of 1, 78 and the maximum 79 bytes; with or without an ancillary chunk before it)
// are the IHDR's, whatever the profile turns out to be.
func VerifHarness_C05_PNG_ICC() {
	VerifInstallZlibStub()
	nameLen := []int{1, 78, 79}[verifChoice(3)]
	in, ihdr, _, _ := VerifBuildPNGICC(verifChoice(2), nameLen, 8)
	md, _, err := Load(bytes.NewReader(in))
	verifAssert(verifAnd(err == nil, md != nil), "well-formed PNG with iCCP rejected")
	if err != nil || md == nil {
		return
	}
	verifReach("png-icc-parsed")
	verifAssert(md.PixelWidth == verifBE32(ihdr[0:4]), "PNG+iCCP PixelWidth = BE32 IHDR+0")
	verifAssert(md.PixelHeight == verifBE32(ihdr[4:8]), "PNG+iCCP PixelHeight = BE32 IHDR+4")
	verifAssert(md.BitsPerComponent == uint32(ihdr[8]), "PNG+iCCP BitsPerComponent = IHDR+8")
	verifAssert(md.Format == "PNG", "PNG+iCCP Format = PNG")
}

// VerifHarness_C05_PNG_Big: the same obligations with a 5000-byte ancillary chunk before
// the image data (the basic fields must not depend on how much ancillary data precedes).
func VerifHarness_C05_PNG_Big() {
	VerifBigAncillary = 5000
	VerifHarness_C05_PNG()
}
