package autometa

import (
	"io"

	"github.com/mandykoh/prism/meta"
	"github.com/mandykoh/prism/meta/jpegmeta"
	"github.com/mandykoh/prism/meta/pngmeta"
	"github.com/mandykoh/prism/meta/webpmeta"
	"github.com/mandykoh/prism/zzverif/rd"
)

var verifC18Payloads = 4

var verifPayloadSizes = []int{0, 4096, 70000, 300000, 1}

// verifC18Case builds a well-formed file of the chosen family and returns the
// header part, the specific loader and the offset just past the last structure the
// loader needs (computed from the container layout, independent of the loader).
func verifC18Case(p int) (head []byte, load func(io.Reader) (*meta.Data, io.Reader, error), needed int) {
	head, load, needed = verifC18Family(p)
	// every family also through the auto-detecting loader: the candidates that fail
	// before the right one must not eat the stream either
	if verifChoice(2) == 1 {
		load = Load
	}
	return
}

// verifBigProfile: length of the large embedded profiles (above the 64 KiB allowance,
// so that a loader reading the profile with over-sized requests oversteps it).
const verifBigProfile = 140000

func verifC18Family(p int) (head []byte, load func(io.Reader) (*meta.Data, io.Reader, error), needed int) {
	switch verifChoice(8) {
	case 6: // WebP VP8X with a large ICC profile (concrete content, symbolic canvas bytes)
		in := []byte("RIFF")
		in = append(in, verifBytes(4)...)
		in = append(in, "WEBPVP8X"...)
		in = append(in, 10, 0, 0, 0, 0x20, 0, 0, 0)
		in = append(in, verifBytes(6)...)
		in = append(in, "ICCP"...)
		in = append(in, byte(verifBigProfile&0xff), byte((verifBigProfile>>8)&0xff), byte(verifBigProfile>>16), 0)
		in = append(in, make([]byte, verifBigProfile)...)
		end := len(in)
		in = append(in, "VP8 "...)
		in = append(in, verifBytes(8)...)
		return in, webpmeta.Load, end
	case 7: // PNG with a large compressed profile
		in := append([]byte{}, pngmeta.VerifSig...)
		in = append(in, 0, 0, 0, 13, 'I', 'H', 'D', 'R')
		in = append(in, verifBytes(13)...)
		in = append(in, verifBytes(4)...)
		l := verifBigProfile + 3
		in = append(in, byte(l>>24), byte(l>>16), byte(l>>8), byte(l))
		in = append(in, "iCCP"...)
		in = append(in, 'a', 0, 0)
		in = append(in, make([]byte, verifBigProfile)...)
		in = append(in, verifBytes(4)...)
		end := len(in)
		in = append(in, 0, 0, 0, 3, 'I', 'D', 'A', 'T')
		in = append(in, verifBytes(7)...)
		return in, pngmeta.Load, end
	case 0: // PNG without profile: needs everything up to the IDAT chunk type
		in, _ := pngmeta.VerifBuildPNG(verifChoice(2))
		return in, pngmeta.Load, len(in) - 7
	case 1: // PNG with iCCP: needs up to the end of the iCCP chunk (incl. CRC)
		in, _, _, end := pngmeta.VerifBuildPNGICC(verifChoice(2), 1, 8)
		return in, pngmeta.Load, end
	case 2: // JPEG without profile: up to the end of the SOS header
		in, _ := jpegmeta.VerifBuildJPEG(verifChoice(2))
		return in, jpegmeta.Load, len(in) - 3
	case 3: // JPEG with a 2-chunk profile, SOF first: up to the end of the last ICC segment
		in, _ := jpegmeta.VerifBuildJPEGICC(2, 0, false, []byte{1, 2}, []byte{2, 2})
		return in, jpegmeta.Load, len(in) - 6
	case 4: // JPEG with a 2-chunk profile, SOF last: up to the end of SOF
		in, _ := jpegmeta.VerifBuildJPEGICC(2, 2, false, []byte{2, 1}, []byte{2, 2})
		return in, jpegmeta.Load, len(in) - 6
	default: // WebP VP8 / VP8L / VP8X(+ICCP of 3 bytes)
		in := webpmeta.VerifBuildWebP()
		// well-formed: for the simple formats the first chunk's declared length covers
		// the bitstream header and the p bytes of pixel data that follow
		if in[15] != 'X' {
			l := len(in) - 20 + p
			in[16], in[17], in[18], in[19] = byte(l), byte(l>>8), byte(l>>16), byte(l>>24)
		}
		n := 30
		if in[15] == 'L' {
			n = 25
		} else if in[15] == 'X' {
			n = 30
			if verifConcrete(int(in[20]&0x20)) != 0 {
				n = 41
			}
		}
		return in, webpmeta.Load, n
	}
}

// VerifHarness_C18: a loader pulls no more than needed + 64 KiB from the source however
// much pixel data follows, and loading the file truncated at `needed` gives the same result.
func VerifHarness_C18() {
	pngmeta.VerifInstallZlibStub()
	p := verifPayloadSizes[verifChoice(verifC18Payloads)]
	head, load, needed := verifC18Case(p)
	in := append(append([]byte{}, head...), make([]byte, p)...)
	src := rd.New(in)
	src.Chunk = []int{0, 1000}[verifChoice(2)]
	md, _, err := load(src)
	verifReach("loaded")
	verifAssert(err == nil, "C18: well-formed file rejected")
	verifAssert(src.Delivered <= needed+65536, "C18: loader consumed more than needed + 64 KiB of the source")
	md2, _, err2 := load(rd.New(in[:needed]))
	pngmeta.VerifSameMeta(md, err, md2, err2)
}

// VerifHarness_C18_NegControl: deliberately wrong claim (the loader never reads past the
// needed bytes at all - no read-ahead allowance); must be reported as violated.
func VerifHarness_C18_NegControl() {
	head, _ := pngmeta.VerifBuildPNG(0)
	in := append(append([]byte{}, head...), make([]byte, 5000)...)
	src := rd.New(in)
	_, _, _ = pngmeta.Load(src)
	verifAssert(src.Delivered <= len(head)-7, "negative control: no read-ahead at all (wrong on purpose)")
}
