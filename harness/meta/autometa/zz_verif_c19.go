package autometa

import (
	"github.com/mandykoh/prism/meta"
	"github.com/mandykoh/prism/meta/jpegmeta"
	"github.com/mandykoh/prism/meta/pngmeta"
	"github.com/mandykoh/prism/meta/webpmeta"
	"github.com/mandykoh/prism/zzverif/rd"
)

var verifC19N = 16

// verifAutoMatches: autometa.Load must return what the first succeeding specific
// loader returns on the complete input (each seeing the stream from its first byte),
// an error and no metadata when none succeeds, and always a stream replaying the input.
func verifAutoMatches(in []byte) {
	pngmeta.VerifInstallZlibStub()
	mdP, _, errP := pngmeta.Load(rd.New(in))
	mdJ, _, errJ := jpegmeta.Load(rd.New(in))
	mdW, _, errW := webpmeta.Load(rd.New(in))
	md, stream, err := Load(rd.New(in))
	var want *meta.Data
	switch {
	case errP == nil:
		want = mdP
		verifReach("png-wins")
	case errJ == nil:
		want = mdJ
		verifReach("jpeg-wins")
	case errW == nil:
		want = mdW
		verifReach("webp-wins")
	default:
		verifReach("none")
	}
	if want != nil {
		verifAssert(err == nil, "auto: a specific loader succeeds but auto reports an error")
		verifAssert(md != nil, "auto: a specific loader succeeds but auto returns no metadata")
		pngmeta.VerifSameMeta(want, nil, md, err)
	} else {
		verifAssert(err != nil, "auto: no loader succeeds but auto reports success")
		verifAssert(md == nil, "auto: no loader succeeds but auto returns metadata")
	}
	verifAssert(stream != nil, "auto: stream is nil")
	if stream != nil {
		out, derr, gaveUp := rd.Drain(stream, 4*len(in)+16)
		verifAssert(verifAnd(!gaveUp, derr == nil), "auto: stream does not end cleanly")
		verifAssert(verifEqBytes(out, in), "auto: stream does not replay the complete input")
	}
}

// VerifHarness_C19_Arbitrary: every input of every length 0..N (the length decides where
// each candidate meets the end of the stream).
func VerifHarness_C19_Arbitrary() {
	verifAutoMatches(verifBytes(verifChoice(verifC19N + 1)))
}

func VerifHarness_C19_Skeleton() {
	var in []byte
	switch verifChoice(7) {
	case 6:
		in = jpegmeta.VerifBuildJPEGTwoSOF()
	case 0:
		in, _ = pngmeta.VerifBuildPNG(verifChoice(2))
	case 1:
		in, _, _, _ = pngmeta.VerifBuildPNGICC(0, 1, 8)
	case 2:
		in, _ = jpegmeta.VerifBuildJPEG(verifChoice(2))
	case 3:
		seq, tot := verifBytes(2), verifBytes(2)
		for i := 0; i < 2; i++ {
			verifAssume(verifAnd(seq[i] <= 3, tot[i] <= 3))
		}
		in, _ = jpegmeta.VerifBuildJPEGICC(2, verifChoice(3), false, seq, tot)
	case 4:
		in = webpmeta.VerifBuildWebP()
	default:
		in, _, _ = webpmeta.VerifBuildVP8X(true, 3)
	}
	// every truncation of the well-formed file as well
	n := len(in)
	if verifChoice(2) == 1 {
		n = verifChoice(len(in))
	}
	verifAutoMatches(in[:n])
}

// VerifHarness_C19_Polyglot: the first bytes satisfy one format's signature while the
// rest is (a skeleton of) another format.
func VerifHarness_C19_Polyglot() {
	var body []byte
	switch verifChoice(3) {
	case 0:
		body, _ = pngmeta.VerifBuildPNG(0)
	case 1:
		body, _ = jpegmeta.VerifBuildJPEG(0)
	default:
		body = webpmeta.VerifBuildWebP()
	}
	var in []byte
	switch verifChoice(3) {
	case 0:
		in = append(append(in, pngmeta.VerifSig...), body...)
	case 1:
		in = append(append(in, 0xff, 0xd8), body...)
	default:
		in = append(append(in, "RIFF\x00\x00\x00\x00WEBP"...), body...)
	}
	verifAutoMatches(in)
}

// VerifHarness_C19_NegControl: deliberately wrong claim (auto reports the JPEG loader's
// outcome even for PNG input); must be reported as violated.
func VerifHarness_C19_NegControl() {
	in, _ := pngmeta.VerifBuildPNG(0)
	_, _, errJ := jpegmeta.Load(rd.New(in))
	_, _, err := Load(rd.New(in))
	verifAssert((err == nil) == (errJ == nil), "negative control: auto succeeds iff the JPEG loader does (wrong on purpose)")
}

// verifC19Sizes: filler lengths of the "large" family (longer than bufio's 4096-byte
// buffer, than two of them, and - thorough tier - than 64 KiB).
var verifC19Sizes = 3

func verifBE32Bytes(v int) []byte { return []byte{byte(v >> 24), byte(v >> 16), byte(v >> 8), byte(v)} }

// verifLargeInput builds inputs that are longer than every internal buffer of the
// loaders and of autometa: a format signature, then ancillary data of L bytes (the last
// four symbolic), then either nothing (no loader can succeed) or the structure the
// format's loader needs; optionally cut just behind the 4096-byte boundary.
func verifLargeInput() []byte {
	sizes := []int{4090, 5000, 9000, 70000}
	L := sizes[verifChoice(verifC19Sizes)]
	fill := make([]byte, L)
	copy(fill[L-4:], verifBytes(4))
	var in []byte
	switch verifChoice(5) {
	case 0, 1:
		in = append(in, pngmeta.VerifSig...)
		if verifChoice(2) == 1 {
			hdr, _ := pngmeta.VerifBuildPNG(0)
			in = append([]byte{}, hdr[:8+25]...) // signature + IHDR chunk
		}
		in = append(in, verifBE32Bytes(L)...)
		in = append(in, "tEXt"...)
		in = append(in, fill...)
		in = append(in, 0, 0, 0, 0)
	case 2:
		in = append(in, 0xff, 0xd8)
		for off := 0; off < L; off += 60000 {
			n := L - off
			if n > 60000 {
				n = 60000
			}
			in = append(in, 0xff, 0xfe, byte((n+2)>>8), byte(n+2))
			in = append(in, fill[off:off+n]...)
		}
		if verifChoice(2) == 1 {
			full, _ := jpegmeta.VerifBuildJPEG(0)
			in = append(in, full[2:]...) // the skeleton's segments after its SOI
		}
	case 3:
		in = append(in, "RIFF"...)
		in = append(in, 0xff, 0xff, 0, 0)
		in = append(in, "WEBPVP8X"...)
		in = append(in, 10, 0, 0, 0, 0x20, 0, 0, 0, 9, 0, 0, 4, 0, 0)
		in = append(in, "JUNK"...)
		in = append(in, byte(L), byte(L>>8), byte(L>>16), 0)
		in = append(in, fill...)
	default:
		in = append(in, fill...) // no signature at all
	}
	if len(in) > 4097 && verifChoice(2) == 1 {
		in = in[:4097]
	}
	return in
}

// VerifHarness_C19_Large: the auto loader against the specific loaders on inputs that
// exceed the internal buffer sizes (a failing candidate has consumed more than a
// buffer's worth before the next one starts).
func VerifHarness_C19_Large() {
	verifAutoMatches(verifLargeInput())
}
