package autometa

// Bounds of the arbitrary-byte harnesses (overridden per tier by the check driver).
var verifC07N = 20
var verifC08N = 12
var verifC09N = 12
