package autometa

import (
	"bytes"

	"github.com/mandykoh/prism/meta/jpegmeta"
	"github.com/mandykoh/prism/meta/pngmeta"
)

func verifIs4(b []byte, off int, s string) bool {
	return verifAnd(verifAnd(b[off] == s[0], b[off+1] == s[1]), verifAnd(b[off+2] == s[2], b[off+3] == s[3]))
}

// The auto-detecting loader must report the same header values as the format
// specifies, for the same well-formed files as the format-specific harnesses.

func VerifHarness_C05_AutoPNG() {
	k := verifChoice(2)
	in, ihdr := pngmeta.VerifBuildPNG(k)
	md, _, err := Load(bytes.NewReader(in))
	verifAssert(err == nil, "auto: well-formed PNG rejected")
	if err != nil || md == nil {
		return
	}
	verifReach("auto-png")
	verifAssert(md.PixelWidth == uint32(ihdr[0])<<24|uint32(ihdr[1])<<16|uint32(ihdr[2])<<8|uint32(ihdr[3]), "auto PNG PixelWidth")
	verifAssert(md.PixelHeight == uint32(ihdr[4])<<24|uint32(ihdr[5])<<16|uint32(ihdr[6])<<8|uint32(ihdr[7]), "auto PNG PixelHeight")
	verifAssert(md.BitsPerComponent == uint32(ihdr[8]), "auto PNG BitsPerComponent")
	verifAssert(md.Format == "PNG", "auto PNG Format")
}

func VerifHarness_C05_AutoJPEG() {
	k := verifChoice(2)
	in, sof := jpegmeta.VerifBuildJPEG(k)
	md, _, err := Load(bytes.NewReader(in))
	verifAssert(err == nil, "auto: well-formed JPEG rejected")
	if err != nil || md == nil {
		return
	}
	verifReach("auto-jpeg")
	verifAssert(md.BitsPerComponent == uint32(sof[0]), "auto JPEG BitsPerComponent")
	verifAssert(md.PixelHeight == uint32(sof[1])<<8|uint32(sof[2]), "auto JPEG PixelHeight")
	verifAssert(md.PixelWidth == uint32(sof[3])<<8|uint32(sof[4]), "auto JPEG PixelWidth")
	verifAssert(md.Format == "JPEG", "auto JPEG Format")
}

func VerifHarness_C05_AutoWebP() {
	kind := verifChoice(3)
	var in []byte
	var w, h uint32
	switch kind {
	case 0: // VP8
		in = verifBytes(30)
		verifAssume(verifAnd(verifIs4(in, 0, "RIFF"), verifAnd(verifIs4(in, 8, "WEBP"), verifIs4(in, 12, "VP8 "))))
		verifAssume(verifAnd(in[23] == 0x9d, verifAnd(in[24] == 0x01, in[25] == 0x2a)))
		w = uint32(in[26]) | uint32(in[27]&0x3f)<<8
		h = uint32(in[28]) | uint32(in[29]&0x3f)<<8
	case 1: // VP8L
		in = verifBytes(25)
		verifAssume(verifAnd(verifIs4(in, 0, "RIFF"), verifAnd(verifIs4(in, 8, "WEBP"), verifIs4(in, 12, "VP8L"))))
		verifAssume(in[20] == 0x2f)
		bits := uint32(in[21]) | uint32(in[22])<<8 | uint32(in[23])<<16 | uint32(in[24])<<24
		w = (bits & 0x3fff) + 1
		h = ((bits >> 14) & 0x3fff) + 1
	default: // VP8X without ICC
		in = verifBytes(30)
		verifAssume(verifAnd(verifIs4(in, 0, "RIFF"), verifAnd(verifIs4(in, 8, "WEBP"), verifIs4(in, 12, "VP8X"))))
		verifAssume(verifAnd(verifAnd(in[16] == 10, in[17] == 0), verifAnd(in[18] == 0, in[19] == 0)))
		verifAssume(in[20]&0x20 == 0)
		w = (uint32(in[24]) | uint32(in[25])<<8 | uint32(in[26])<<16) + 1
		h = (uint32(in[27]) | uint32(in[28])<<8 | uint32(in[29])<<16) + 1
	}
	md, _, err := Load(bytes.NewReader(in))
	verifAssert(err == nil, "auto: well-formed WebP rejected")
	if err != nil || md == nil {
		return
	}
	verifReach("auto-webp")
	verifAssert(md.PixelWidth == w, "auto WebP PixelWidth")
	verifAssert(md.PixelHeight == h, "auto WebP PixelHeight")
	verifAssert(md.BitsPerComponent == 8, "auto WebP BitsPerComponent")
	verifAssert(md.Format == "WebP", "auto WebP Format")
}
