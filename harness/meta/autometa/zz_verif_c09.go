package autometa

import (
	"github.com/mandykoh/prism/meta/pngmeta"
	"github.com/mandykoh/prism/zzverif/rd"
)

func VerifHarness_C09_Auto_Arbitrary() {
	pngmeta.VerifInstallZlibStub()
	in := verifBytes(verifC09N)
	pngmeta.VerifHostileBudget(3 * len(in)) // three loaders each see the input once
	md, _, _ := Load(rd.New(in))
	pngmeta.VerifUseMetadata(md)
	verifReach("returned")
}
