package autometa

import (
	"github.com/mandykoh/prism/meta/jpegmeta"
	"github.com/mandykoh/prism/meta/pngmeta"
	"github.com/mandykoh/prism/meta/webpmeta"
	"github.com/mandykoh/prism/zzverif/rd"
)

// verifStreamReplays asserts the C07 contract for one call of Load on src.
func verifStreamReplays(src *rd.Source, in []byte) {
	pngmeta.VerifInstallZlibStub()
	_, stream, _ := Load(src)
	verifAssert(stream != nil, "stream is nil")
	if stream == nil {
		return
	}
	out, err, gaveUp := rd.Drain(stream, 4*len(in)+16)
	verifAssert(!gaveUp, "stream does not terminate")
	want := in
	if src.FailAt >= 0 && src.FailAt <= len(in) {
		want = in[:src.FailAt]
		verifAssert(err == rd.ErrInjected, "stream does not surface the source's I/O error")
	} else {
		verifAssert(err == nil, "stream ends with an error although the source did not fail")
	}
	verifAssert(verifEqBytes(out, want), "stream bytes differ from the source bytes")
	verifReach("drained")
}

// VerifHarness_C07_Auto_Arbitrary: N arbitrary bytes, every truncation length.
func VerifHarness_C07_Auto_Arbitrary() {
	n := verifChoice(verifC07N + 1)
	in := verifBytes(n)
	verifStreamReplays(rd.New(in), in)
}

// VerifHarness_C07_Auto_Fault: arbitrary bytes, I/O error after e bytes, delivery
// in chunks of c bytes, final data optionally together with the error/EOF.
func VerifHarness_C07_Auto_Fault() {
	in := verifBytes(verifC07N)
	src := rd.New(in)
	src.FailAt = verifChoice(verifC07N+2) - 1
	src.Chunk = []int{0, 1, 3}[verifChoice(3)]
	src.EOFWithData = verifChoice(2) == 1
	verifStreamReplays(src, in)
}

// VerifHarness_C07_Auto_Skeleton: well-formed skeleton (C05 shape) followed by symbolic
// data, truncated at every length.
func VerifHarness_C07_Auto_Skeleton() {
	var full []byte
	switch verifChoice(3) {
	case 0:
		full, _ = pngmeta.VerifBuildPNG(1)
	case 1:
		full, _ = jpegmeta.VerifBuildJPEG(1)
	default:
		full = webpmeta.VerifBuildWebP()
	}
	n := verifChoice(len(full) + 1)
	in := full[:n]
	verifStreamReplays(rd.New(in), in)
}

// VerifHarness_C07_Auto_Large: inputs longer than the internal buffers (C19's large family).
func VerifHarness_C07_Auto_Large() {
	in := verifLargeInput()
	verifStreamReplays(rd.New(in), in)
}
