package webpmeta

// Bounds of the arbitrary-byte harnesses (overridden per tier by the check driver).
var verifC07N = 30
var verifC08N = 14
var verifC09N = 40
