package webpmeta

import (
	"github.com/mandykoh/prism/meta/pngmeta"
	"github.com/mandykoh/prism/zzverif/rd"
)

func VerifHarness_C09_WebP_Arbitrary() {
	in := verifBytes(verifC09N)
	pngmeta.VerifHostileBudget(len(in))
	md, _, _ := Load(rd.New(in))
	pngmeta.VerifUseMetadata(md)
	verifReach("returned")
}

// VerifHarness_C09_WebP_ICCP: VP8X with the ICC flag, followed by an ICCP chunk whose
// declared length is an unconstrained 32-bit word.
func VerifHarness_C09_WebP_ICCP() {
	in := []byte("RIFF")
	in = append(in, verifBytes(4)...)
	in = append(in, "WEBPVP8X"...)
	in = append(in, verifBytes(4)...) // VP8X length
	in = append(in, verifBytes(10)...)
	in = append(in, "ICCP"...)
	in = append(in, verifBytes(4)...) // ICCP length
	in = append(in, verifBytes(6)...)
	verifAssume(in[20]&0x20 != 0)
	pngmeta.VerifHostileBudget(len(in))
	md, _, _ := Load(rd.New(in))
	pngmeta.VerifUseMetadata(md)
	verifReach("returned")
}
