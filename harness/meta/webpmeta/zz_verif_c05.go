package webpmeta

import "bytes"

func verifIs4(b []byte, off int, s string) bool {
	return verifAnd(verifAnd(b[off] == s[0], b[off+1] == s[1]), verifAnd(b[off+2] == s[2], b[off+3] == s[3]))
}

func verifLE32(b []byte, off int) uint32 {
	return uint32(b[off]) | uint32(b[off+1])<<8 | uint32(b[off+2])<<16 | uint32(b[off+3])<<24
}

// VerifHarness_C05_VP8: lossy WebP. RIFF container, 'VP8 ' chunk, frame tag (3 bytes,
// symbolic), start code 9d 01 2a, then 14-bit width and height (upper 2 bits: scale).
// `extra` symbolic bytes of frame data follow.
func VerifHarness_C05_VP8() {
	extra := verifChoice(3) * 5
	in := verifBytes(30 + extra)
	verifAssume(verifAnd(verifIs4(in, 0, "RIFF"), verifAnd(verifIs4(in, 8, "WEBP"), verifIs4(in, 12, "VP8 "))))
	verifAssume(verifAnd(in[23] == 0x9d, verifAnd(in[24] == 0x01, in[25] == 0x2a)))
	md, _, err := Load(bytes.NewReader(in))
	verifAssert(err == nil, "well-formed VP8 WebP rejected")
	if err != nil || md == nil {
		return
	}
	verifReach("vp8-parsed")
	verifAssert(md.PixelWidth == uint32(in[26])|uint32(in[27]&0x3f)<<8, "VP8 PixelWidth = 14-bit LE @26")
	verifAssert(md.PixelHeight == uint32(in[28])|uint32(in[29]&0x3f)<<8, "VP8 PixelHeight = 14-bit LE @28")
	verifAssert(md.BitsPerComponent == 8, "VP8 BitsPerComponent = 8")
	verifAssert(md.Format == "WebP", "VP8 Format = WebP")
}

// VerifHarness_C05_VP8L: lossless WebP. 'VP8L' chunk, signature 0x2f, then
// 14 bits width-1, 14 bits height-1 (LSB first), alpha flag, version.
func VerifHarness_C05_VP8L() {
	extra := verifChoice(3) * 5
	in := verifBytes(25 + extra)
	verifAssume(verifAnd(verifIs4(in, 0, "RIFF"), verifAnd(verifIs4(in, 8, "WEBP"), verifIs4(in, 12, "VP8L"))))
	verifAssume(in[20] == 0x2f)
	md, _, err := Load(bytes.NewReader(in))
	verifAssert(err == nil, "well-formed VP8L WebP rejected")
	if err != nil || md == nil {
		return
	}
	verifReach("vp8l-parsed")
	bits := verifLE32(in, 21)
	verifAssert(md.PixelWidth == (bits&0x3fff)+1, "VP8L PixelWidth = bits 0..13 + 1")
	verifAssert(md.PixelHeight == ((bits>>14)&0x3fff)+1, "VP8L PixelHeight = bits 14..27 + 1")
	verifAssert(md.BitsPerComponent == 8, "VP8L BitsPerComponent = 8")
	verifAssert(md.Format == "WebP", "VP8L Format = WebP")
}

// VerifHarness_C05_VP8X: extended WebP without ICC flag. 'VP8X' chunk of 10 bytes:
// flags, 3 reserved, 24-bit width-1, 24-bit height-1.
func VerifHarness_C05_VP8X() {
	extra := verifChoice(3) * 5
	in := verifBytes(30 + extra)
	verifAssume(verifAnd(verifIs4(in, 0, "RIFF"), verifAnd(verifIs4(in, 8, "WEBP"), verifIs4(in, 12, "VP8X"))))
	verifAssume(verifLE32(in, 16) == 10)
	verifAssume(in[20]&0x20 == 0)
	md, _, err := Load(bytes.NewReader(in))
	verifAssert(err == nil, "well-formed VP8X WebP rejected")
	if err != nil || md == nil {
		return
	}
	verifReach("vp8x-parsed")
	verifAssert(md.PixelWidth == (uint32(in[24])|uint32(in[25])<<8|uint32(in[26])<<16)+1, "VP8X PixelWidth = 24-bit LE @24 + 1")
	verifAssert(md.PixelHeight == (uint32(in[27])|uint32(in[28])<<8|uint32(in[29])<<16)+1, "VP8X PixelHeight = 24-bit LE @27 + 1")
	verifAssert(md.BitsPerComponent == 8, "VP8X BitsPerComponent = 8")
	verifAssert(md.Format == "WebP", "VP8X Format = WebP")
	data, perr := md.ICCProfileData()
	verifAssert(verifAnd(data == nil, perr == nil), "VP8X without ICC flag: profile must be (nil, nil)")
}

// VerifHarness_C05_NegControl: deliberately wrong spec (VP8L width taken from
// bits 1..14); must be reported as violated.
func VerifHarness_C05_NegControl() {
	in := verifBytes(25)
	verifAssume(verifAnd(verifIs4(in, 0, "RIFF"), verifAnd(verifIs4(in, 8, "WEBP"), verifIs4(in, 12, "VP8L"))))
	verifAssume(in[20] == 0x2f)
	md, _, err := Load(bytes.NewReader(in))
	if err != nil || md == nil {
		return
	}
	verifAssert(md.PixelWidth == ((verifLE32(in, 21)>>1)&0x3fff)+1, "negative control: VP8L width from bits 1..14 (wrong on purpose)")
}

// VerifBuildWebP builds one of the three well-formed WebP skeletons (symbolic
// choice): VP8, VP8L, VP8X (ICC flag symbolic; when set an ICCP chunk with 3
// symbolic bytes follows), each followed by 4 symbolic bytes.
func VerifBuildWebP() []byte {
	var in []byte
	switch verifChoice(3) {
	case 0:
		in = verifBytes(34)
		verifAssume(verifAnd(verifIs4(in, 0, "RIFF"), verifAnd(verifIs4(in, 8, "WEBP"), verifIs4(in, 12, "VP8 "))))
		verifAssume(verifAnd(in[23] == 0x9d, verifAnd(in[24] == 0x01, in[25] == 0x2a)))
	case 1:
		in = verifBytes(29)
		verifAssume(verifAnd(verifIs4(in, 0, "RIFF"), verifAnd(verifIs4(in, 8, "WEBP"), verifIs4(in, 12, "VP8L"))))
		verifAssume(in[20] == 0x2f)
	default:
		in = verifBytes(45)
		verifAssume(verifAnd(verifIs4(in, 0, "RIFF"), verifAnd(verifIs4(in, 8, "WEBP"), verifIs4(in, 12, "VP8X"))))
		verifAssume(verifLE32(in, 16) == 10)
		verifAssume(verifAnd(verifIs4(in, 30, "ICCP"), verifLE32(in, 34) == 3))
	}
	return in
}
