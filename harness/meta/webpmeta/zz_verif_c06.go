package webpmeta

import "bytes"

var verifC06Sizes = 4 // how many of the ICCP sizes below are explored

var verifICCPSizes = []int{0, 1, 7, 4097, 4095, 4096}

// VerifBuildVP8X builds RIFF/WEBP/VP8X (10 bytes, flags symbolic) and, when withICCP,
// an ICCP chunk with n symbolic bytes (plus pad byte for odd n), then a VP8 chunk header.
func VerifBuildVP8X(withICCP bool, n int) (in []byte, vp8x []byte, profile []byte) {
	in = []byte("RIFF")
	in = append(in, verifBytes(4)...)
	in = append(in, "WEBPVP8X"...)
	in = append(in, 10, 0, 0, 0)
	vp8x = verifBytes(10)
	in = append(in, vp8x...)
	if withICCP {
		in = append(in, "ICCP"...)
		in = append(in, byte(n), byte(n>>8), byte(n>>16), byte(n>>24))
		profile = verifBytes(n)
		in = append(in, profile...)
		if n%2 == 1 {
			in = append(in, 0)
		}
	}
	in = append(in, "VP8 "...)
	in = append(in, verifBytes(8)...)
	return in, vp8x, profile
}

// VerifHarness_C06_WebP: flag set and ICCP present -> exactly the chunk's bytes;
// flag set but the next chunk is not ICCP -> metadata plus error; flag clear -> (nil, nil).
func VerifHarness_C06_WebP() {
	withICCP := verifChoice(2) == 1
	n := 0
	if withICCP {
		n = verifICCPSizes[verifChoice(verifC06Sizes)]
	}
	in, vp8x, profile := VerifBuildVP8X(withICCP, n)
	md, _, err := Load(bytes.NewReader(in))
	verifAssert(verifAnd(err == nil, md != nil), "VP8X WebP: basic metadata not returned")
	if err != nil || md == nil {
		return
	}
	data, perr := md.ICCProfileData()
	flag := vp8x[0]&0x20 != 0
	if !flag {
		verifReach("webp-noflag")
		verifAssert(verifAnd(data == nil, perr == nil), "WebP without ICC flag: profile must be (nil, nil)")
		return
	}
	if withICCP {
		verifReach("webp-iccp")
		verifAssert(perr == nil, "WebP ICCP present but accessor reports an error")
		verifAssert(data != nil, "WebP ICCP present but no bytes returned")
		verifAssert(verifEqBytes(data, profile), "WebP ICCP bytes differ from the chunk payload")
	} else {
		verifReach("webp-flag-nochunk")
		verifAssert(data == nil, "WebP ICC flag without ICCP chunk: bytes returned")
		verifAssert(perr != nil, "WebP ICC flag without ICCP chunk: no error reported")
	}
}
