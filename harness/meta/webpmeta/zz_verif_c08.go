package webpmeta

import (
	"github.com/mandykoh/prism/meta/pngmeta"
	"github.com/mandykoh/prism/zzverif/rd"
)

func verifSegmented(in []byte) {
	md1, _, err1 := Load(rd.New(in))
	src := rd.New(in)
	src.Chunk = []int{1, 2, 3, 7}[verifChoice(4)]
	src.EOFWithData = verifChoice(2) == 1
	md2, _, err2 := Load(src)
	verifReach("both-loaded")
	pngmeta.VerifSameMeta(md1, err1, md2, err2)
}

// VerifHarness_C08_WebP_Arbitrary: N arbitrary bytes, full delivery vs. chunked delivery.
func VerifHarness_C08_WebP_Arbitrary() {
	verifSegmented(verifBytes(verifC08N))
}

// VerifHarness_C08_WebP_Skeleton: well-formed skeletons (with symbolic fields).
func VerifHarness_C08_WebP_Skeleton() {
	var in []byte
	if verifChoice(2) == 0 {
		in = VerifBuildWebP()
	} else { // extended format with an embedded profile of odd and even length
		in, _, _ = VerifBuildVP8X(true, []int{3, 8}[verifChoice(2)])
	}
	verifSegmented(in)
}
