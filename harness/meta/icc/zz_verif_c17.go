package icc

import (
	"bytes"
	"unicode/utf16"
)

var verifC17Tags = 2
var verifC17D = 8
var verifC17Records = 2
var verifC17Unicode = 0

func verifPut32(n uint32) []byte { return []byte{byte(n >> 24), byte(n >> 16), byte(n >> 8), byte(n)} }

// VerifHarness_C17_TagTable: k tags with symbolic distinct signatures and symbolic
// offsets/sizes (any layout inside the data area: overlapping, shared, out of table
// order, with gaps), d symbolic data bytes. Reading succeeds and every tag's entry is
// exactly the bytes at its declared offset and size.
func VerifHarness_C17_TagTable() {
	k := verifChoice(verifC17Tags + 1)
	d := verifC17D
	h := verifBytes(128)
	verifAssume(verifBE32(h, 36) == 0x61637370)
	in := append([]byte{}, h...)
	in = append(in, verifPut32(uint32(k))...)
	base := 132 + 12*k
	total := base + d
	sigs := make([]uint32, k)
	offs := make([]int, k)
	sizes := make([]int, k)
	for i := 0; i < k; i++ {
		sigs[i] = verifU32()
		for j := 0; j < i; j++ {
			verifAssume(sigs[i] != sigs[j])
		}
		// any placement inside the data area
		offs[i] = base + verifChoice(d+1)
		sizes[i] = verifChoice(total - offs[i] + 1)
		in = append(in, verifPut32(sigs[i])...)
		in = append(in, verifPut32(uint32(offs[i]))...)
		in = append(in, verifPut32(uint32(sizes[i]))...)
	}
	data := verifBytes(d)
	in = append(in, data...)
	p, err := NewProfileReader(bytes.NewReader(in)).ReadProfile()
	verifAssert(err == nil, "well-formed profile rejected")
	if err != nil || p == nil {
		return
	}
	verifReach("tagtable-read")
	verifAssert(len(p.TagTable.entries) == k, "tag table does not hold one entry per tag")
	for i := 0; i < k; i++ {
		e, ok := p.TagTable.entries[Signature(sigs[i])]
		verifAssert(ok, "tag missing from the tag table")
		verifAssert(verifEqBytes(e, in[offs[i]:offs[i]+sizes[i]]), "tag entry differs from the bytes at its declared offset and size")
	}
}

// VerifHarness_C17_DescViaProfile: a complete profile whose 'desc' tag is a v2
// textDescription placed at a symbolic position among other tag data.
func VerifHarness_C17_DescViaProfile() {
	c := 1 + verifChoice(4) // ASCII count incl. terminator: 1..4
	h := verifBytes(128)
	verifAssume(verifBE32(h, 36) == 0x61637370)
	text := verifBytes(c - 1)
	tag := append([]byte("desc\x00\x00\x00\x00"), verifPut32(uint32(c))...)
	tag = append(tag, text...)
	tag = append(tag, 0)
	pad := verifChoice(4) // 0-3 bytes of padding before the tag data
	in := append([]byte{}, h...)
	in = append(in, verifPut32(2)...)
	base := 132 + 24
	other := verifBytes(4)
	in = append(in, 'w', 't', 'p', 't')
	in = append(in, verifPut32(uint32(base))...)
	in = append(in, verifPut32(4)...)
	in = append(in, 'd', 'e', 's', 'c')
	in = append(in, verifPut32(uint32(base+4+pad))...)
	in = append(in, verifPut32(uint32(len(tag)))...)
	in = append(in, other...)
	in = append(in, verifBytes(pad)...)
	in = append(in, tag...)
	p, err := NewProfileReader(bytes.NewReader(in)).ReadProfile()
	verifAssert(err == nil, "well-formed profile rejected")
	if err != nil || p == nil {
		return
	}
	s, derr := p.Description()
	verifReach("desc-read")
	verifAssert(derr == nil, "textDescription: Description() reports an error")
	verifAssert(verifEqBytes([]byte(s), text), "textDescription: description differs from the ASCII bytes after the count")
}

// VerifHarness_C17_Mluc: multiLocalizedUnicode with r records; languages, countries and
// UTF-16 code units are symbolic, string placement (offset, length) ranges over every
// position in the string area (in order, reversed, shared, overlapping).
func VerifHarness_C17_Mluc() {
	r := 1 + verifChoice(verifC17Records)
	area := 6 // bytes of string storage
	hdr := 16 + 12*r
	strs := verifBytes(area)
	if verifC17Unicode == 0 {
		// quick tier: ASCII code units only (BMP and surrogate pairs in the thorough tier)
		for j := 0; j < area; j += 2 {
			strs[j] = 0
			verifAssume(strs[j+1] < 0x80)
		}
	}
	tag := append([]byte("mluc\x00\x00\x00\x00"), verifPut32(uint32(r))...)
	tag = append(tag, verifPut32(12)...)
	lang := make([][]byte, r)
	offs := make([]int, r)
	lens := make([]int, r)
	for i := 0; i < r; i++ {
		lang[i] = verifBytes(4)      // language, country
		lens[i] = 2 * verifChoice(3) // 0, 1 or 2 code units (an empty string may sit at the very end of the tag)
		offs[i] = hdr + 2*verifChoice((area-lens[i])/2+1)
		tag = append(tag, lang[i]...)
		tag = append(tag, verifPut32(uint32(lens[i]))...)
		tag = append(tag, verifPut32(uint32(offs[i]))...)
	}
	tag = append(tag, strs...)
	p := newProfile()
	p.TagTable.add(DescSignature, tag)
	s, derr := p.Description()
	verifReach("mluc-read")
	verifAssert(derr == nil, "mluc: Description() reports an error")
	// specification side
	anyEn := false
	isAnyRecord := false
	isEnRecord := false
	for i := 0; i < r; i++ {
		var units []uint16
		for j := 0; j < lens[i]; j += 2 {
			units = append(units, uint16(tag[offs[i]+j])<<8|uint16(tag[offs[i]+j+1]))
		}
		want := string(utf16.Decode(units))
		same := verifEqBytes([]byte(s), []byte(want))
		en := verifAnd(lang[i][0] == 'e', lang[i][1] == 'n')
		// an 'en' record whose string is empty does not count: the accessor then falls back to
		// any record (the property fixes the choice only when an English string exists)
		anyEn = verifOr(anyEn, verifAnd(en, lens[i] > 0))
		isAnyRecord = verifOr(isAnyRecord, same)
		isEnRecord = verifOr(isEnRecord, verifAnd(en, same))
	}
	verifAssert(isAnyRecord, "mluc: description is not the string stored at any record's declared offset")
	verifAssert(verifImplies(anyEn, isEnRecord), "mluc: an 'en' record exists but the description is not the string at an 'en' record's offset")
}

// VerifHarness_C17_NegControl: deliberately wrong claim (the description is the text
// starting one byte later); must be reported as violated.
func VerifHarness_C17_NegControl() {
	text := verifBytes(3)
	tag := append([]byte("desc\x00\x00\x00\x00"), 0, 0, 0, 4)
	tag = append(tag, text...)
	tag = append(tag, 0)
	p := newProfile()
	p.TagTable.add(DescSignature, tag)
	s, _ := p.Description()
	verifAssert(verifEqBytes([]byte(s), tag[13:16]), "negative control: description starts one byte late (wrong on purpose)")
}
