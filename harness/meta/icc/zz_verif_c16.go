package icc

import "bytes"

func verifBE32(b []byte, off int) uint32 {
	return uint32(b[off])<<24 | uint32(b[off+1])<<16 | uint32(b[off+2])<<8 | uint32(b[off+3])
}
func verifBE16(b []byte, off int) uint16 {
	return uint16(b[off])<<8 | uint16(b[off+1])
}
func verifBE64(b []byte, off int) uint64 {
	return uint64(verifBE32(b, off))<<32 | uint64(verifBE32(b, off+4))
}

// verifMinimalTagTable is a well-formed tag table with one 'desc' tag of 4 bytes.
func verifMinimalTagTable() []byte {
	return []byte{
		0, 0, 0, 1, // tag count
		'd', 'e', 's', 'c', 0, 0, 0, 144, 0, 0, 0, 4,
		1, 2, 3, 4,
	}
}

// VerifHarness_C16_Header: every header field equals the big-endian value at
// the offset ICC.1:2010 Table 17 assigns to it, for all 2^1024 headers with 'acsp'.
func VerifHarness_C16_Header() {
	h := verifBytes(128)
	verifAssume(verifAnd(verifAnd(h[36] == 'a', h[37] == 'c'), verifAnd(h[38] == 's', h[39] == 'p')))
	in := append(append([]byte{}, h...), verifMinimalTagTable()...)
	p, err := NewProfileReader(bytes.NewReader(in)).ReadProfile()
	verifAssert(err == nil, "well-formed profile rejected")
	if err != nil || p == nil {
		return
	}
	verifReach("header-parsed")
	hd := p.Header
	verifAssert(hd.ProfileSize == verifBE32(h, 0), "ProfileSize = BE32 @0")
	verifAssert(uint32(hd.PreferredCMM) == verifBE32(h, 4), "PreferredCMM = BE32 @4")
	verifAssert(hd.Version.Major == h[8], "Version.Major = byte 8")
	verifAssert(hd.Version.MinorAndRev == h[9], "Version.MinorAndRev = byte 9")
	verifAssert(uint32(hd.DeviceClass) == verifBE32(h, 12), "DeviceClass = BE32 @12")
	verifAssert(uint32(hd.DataColorSpace) == verifBE32(h, 16), "DataColorSpace = BE32 @16")
	verifAssert(uint32(hd.ProfileConnectionSpace) == verifBE32(h, 20), "PCS = BE32 @20")
	verifAssert(verifTimeIs(hd.CreatedAt, int(verifBE16(h, 24)), int(verifBE16(h, 26)), int(verifBE16(h, 28)),
		int(verifBE16(h, 30)), int(verifBE16(h, 32)), int(verifBE16(h, 34))), "CreatedAt = dateTimeNumber @24")
	verifAssert(uint32(hd.PrimaryPlatform) == verifBE32(h, 40), "PrimaryPlatform = BE32 @40")
	flags := verifBE32(h, 44)
	verifAssert(hd.Embedded == (flags&1 != 0), "Embedded = flags bit 0 @44")
	verifAssert(hd.DependsOnEmbeddedData == (flags&2 != 0), "DependsOnEmbeddedData = flags bit 1 @44")
	verifAssert(uint32(hd.DeviceManufacturer) == verifBE32(h, 48), "DeviceManufacturer = BE32 @48")
	verifAssert(uint32(hd.DeviceModel) == verifBE32(h, 52), "DeviceModel = BE32 @52")
	verifAssert(hd.DeviceAttributes == verifBE64(h, 56), "DeviceAttributes = BE64 @56")
	verifAssert(uint32(hd.RenderingIntent) == verifBE32(h, 64), "RenderingIntent = BE32 @64")
	verifAssert(hd.PCSIlluminant[0] == verifBE32(h, 68), "PCSIlluminant[0] = BE32 @68")
	verifAssert(hd.PCSIlluminant[1] == verifBE32(h, 72), "PCSIlluminant[1] = BE32 @72")
	verifAssert(hd.PCSIlluminant[2] == verifBE32(h, 76), "PCSIlluminant[2] = BE32 @76")
	verifAssert(uint32(hd.ProfileCreator) == verifBE32(h, 80), "ProfileCreator = BE32 @80")
	verifAssert(verifEqBytes(hd.ProfileID[:], h[84:100]), "ProfileID = bytes 84..99")
	s := hd.Version.String()
	verifAssert(verifSprintfIs(s, "%d.%d.%d", h[8], h[9]>>4, h[9]&0x0F), "Version.String = major.minor.bugfix (BCD nibbles)")
}

// VerifHarness_C16_BadSignature: any header whose bytes 36..39 are not 'acsp' is rejected.
func VerifHarness_C16_BadSignature() {
	h := verifBytes(128)
	verifAssume(verifBE32(h, 36) != 0x61637370)
	in := append(append([]byte{}, h...), verifMinimalTagTable()...)
	p, err := NewProfileReader(bytes.NewReader(in)).ReadProfile()
	verifReach("bad-signature")
	verifAssert(err != nil, "header without 'acsp' accepted")
	verifAssert(p == nil, "profile returned for header without 'acsp'")
}

// VerifHarness_C16_NegControl: deliberately wrong spec (size taken from offset 4);
// must be reported as violated, else the assertions are not connected to the code.
func VerifHarness_C16_NegControl() {
	h := verifBytes(128)
	verifAssume(verifBE32(h, 36) == 0x61637370)
	in := append(append([]byte{}, h...), verifMinimalTagTable()...)
	p, err := NewProfileReader(bytes.NewReader(in)).ReadProfile()
	if err != nil || p == nil {
		return
	}
	verifAssert(p.Header.ProfileSize == verifBE32(h, 4), "negative control: ProfileSize = BE32 @4 (wrong on purpose)")
}
