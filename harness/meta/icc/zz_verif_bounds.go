package icc

var verifC09N = 148
var verifC09D = 8
var verifC09R = 1
var verifC09Case = -1
