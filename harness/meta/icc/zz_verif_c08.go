package icc

import (
	"bufio"
	"bytes"

	"github.com/mandykoh/prism/zzverif/rd"
)

var verifC08Desc = 6

// verifProfileBytes: symbolic 128-byte header with 'acsp', one 'desc' tag whose
// data is d symbolic bytes.
func verifProfileBytes(d int) []byte {
	h := verifBytes(128)
	verifAssume(verifBE32(h, 36) == 0x61637370)
	in := append([]byte{}, h...)
	in = append(in, 0, 0, 0, 1, 'd', 'e', 's', 'c', 0, 0, 0, 144, byte(d>>24), byte(d>>16), byte(d>>8), byte(d))
	in = append(in, verifBytes(d)...)
	return in
}

// VerifHarness_C08_ICC: the profile reader behind a buffered reader over a source that
// delivers in short reads must produce the same profile as reading from memory.
func VerifHarness_C08_ICC() {
	// 6 bytes of tag data, or 9000 (more than two bufio buffers, so that reads bypass the buffer)
	in := verifProfileBytes([]int{verifC08Desc, 9000}[verifChoice(2)])
	p1, err1 := NewProfileReader(bytes.NewReader(in)).ReadProfile()
	src := rd.New(in)
	src.Chunk = []int{1, 2, 3, 7, 100, 0, 8192}[verifChoice(7)]
	src.EOFWithData = verifChoice(2) == 1
	p2, err2 := NewProfileReader(bufio.NewReader(src)).ReadProfile()
	verifReach("both-read")
	verifAssert((err1 == nil) == (err2 == nil), "ICC reader outcome depends on read segmentation")
	verifAssert((p1 == nil) == (p2 == nil), "ICC profile presence depends on read segmentation")
	if p1 == nil || p2 == nil {
		return
	}
	verifAssert(p1.Header.ProfileSize == p2.Header.ProfileSize, "ICC ProfileSize depends on read segmentation")
	verifAssert(verifEqBytes(p1.Header.ProfileID[:], p2.Header.ProfileID[:]), "ICC ProfileID depends on read segmentation")
	verifAssert(verifEqBytes(p1.TagTable.entries[DescSignature], p2.TagTable.entries[DescSignature]), "ICC tag data depends on read segmentation")
}
