package icc

import "bytes"

func verifHostileBudget(n int) { verifSetBudget(16*n+131072, 4000*n+200000) }

// VerifHarness_C09_ICC_TagTable: valid header, then a tag table whose declared count
// and every offset and size are unconstrained 32-bit words (k entries are
// physically present, d data bytes follow).
func VerifHarness_C09_ICC_TagTable() {
	h := verifBytes(128)
	verifAssume(verifBE32(h, 36) == 0x61637370)
	in := append([]byte{}, h...)
	in = append(in, verifBytes(4)...) // declared tag count
	k := verifChoice(3)
	in = append(in, verifBytes(12*k)...)
	in = append(in, verifBytes(verifC09D)...)
	verifHostileBudget(len(in))
	p, err := NewProfileReader(bytes.NewReader(in)).ReadProfile()
	if err == nil && p != nil {
		_, _ = p.Description()
	}
	verifReach("returned")
}

// VerifHarness_C09_ICC_SharedTags: a valid header and a table of 100 distinctly named tags
// that all declare the same 3000-byte element (sharing tag data is legal in ICC): memory
// must stay linear in the profile size, not tags x element size. A few bytes symbolic.
func VerifHarness_C09_ICC_SharedTags() {
	const tags, elem = 100, 3000
	h := verifBytes(128)
	verifAssume(verifBE32(h, 36) == 0x61637370)
	in := append([]byte{}, h...)
	in = append(in, 0, 0, 0, tags)
	off := 128 + 4 + 12*tags
	for i := 0; i < tags; i++ {
		in = append(in, 't', 'g', byte('a'+i/26), byte('a'+i%26))
		in = append(in, byte(off>>24), byte(off>>16), byte(off>>8), byte(off))
		in = append(in, 0, 0, byte(elem>>8), byte(elem&0xff))
	}
	body := make([]byte, elem)
	copy(body, verifBytes(8))
	in = append(in, body...)
	verifHostileBudget(len(in))
	p, err := NewProfileReader(bytes.NewReader(in)).ReadProfile()
	if err == nil && p != nil {
		_, _ = p.Description()
	}
	verifReach("returned")
}

// VerifHarness_C09_ICC_Arbitrary: N arbitrary bytes given to the profile reader.
func VerifHarness_C09_ICC_Arbitrary() {
	in := verifBytes(verifC09N)
	verifHostileBudget(len(in))
	p, err := NewProfileReader(bytes.NewReader(in)).ReadProfile()
	if err == nil && p != nil {
		_, _ = p.Description()
	}
	verifReach("returned")
}

// VerifHarness_C09_ICC_Desc: Description() on a profile whose 'desc' tag holds a
// textDescription with an unconstrained ASCII count, or a multiLocalizedUnicode
// with unconstrained record count, record size, string lengths and offsets.
func VerifHarness_C09_ICC_Desc() {
	var data []byte
	which := verifC09Case
	if which < 0 {
		which = verifChoice(7)
	}
	switch which {
	case 0:
		data = append([]byte("desc"), verifBytes(4)...)
		data = append(data, verifBytes(4)...) // ASCII count
		data = append(data, verifBytes(6)...)
	case 1:
		// mluc, record count and record size unconstrained; the one physically present
		// record is well-formed (its string inside the tag)
		data = append([]byte("mluc"), verifBytes(4)...)
		data = append(data, verifBytes(8)...) // record count, record size
		data = append(data, verifBytes(4)...) // language, country
		data = append(data, 0, 0, 0, 2, 0, 0, 0, 28)
		data = append(data, verifBytes(2)...)
	case 2:
		// mluc, one record of size 12 whose string length and offset are unconstrained
		// (string content is concrete: the property does not depend on it and symbolic
		// code units fork 5 ways each in string(utf16.Decode(...)))
		data = append([]byte("mluc"), 0, 0, 0, 0)
		data = append(data, 0, 0, 0, 1, 0, 0, 0, 12)
		data = append(data, "enUS"...)
		data = append(data, verifBytes(8)...) // string length, string offset
		data = append(data, 0, 65, 0, 66)
	case 3:
		// mluc, two well-formed records, unconstrained record size field
		data = append([]byte("mluc"), 0, 0, 0, 0)
		data = append(data, 0, 0, 0, 2)
		data = append(data, verifBytes(4)...) // record size
		for i := 0; i < 2; i++ {
			data = append(data, 'e', 'n', 'U', byte('S'+i))
			data = append(data, 0, 0, 0, 2, 0, 0, 0, byte(40+2*i))
		}
		data = append(data, 0, 65, 0, 66)
	case 4:
		// mluc, record count unconstrained, record size one of the boundary values around
		// the 12-byte record (smaller than a record, exact, larger), one well-formed record
		sizes := []uint32{0, 4, 11, 12, 13, 28}
		sz := sizes[verifChoice(len(sizes))]
		data = append([]byte("mluc"), 0, 0, 0, 0)
		data = append(data, verifBytes(4)...) // record count
		data = append(data, byte(sz>>24), byte(sz>>16), byte(sz>>8), byte(sz))
		data = append(data, "enUS"...)
		data = append(data, 0, 0, 0, 2, 0, 0, 0, 28)
		data = append(data, 0, 65)
	case 5:
		// mluc, many records (distinct locales) that all declare the same large string:
		// sharing is legal in ICC; the work and memory must stay linear in the tag size
		const recs, strLen = 40, 3000
		data = append([]byte("mluc"), 0, 0, 0, 0)
		data = append(data, 0, 0, 0, recs, 0, 0, 0, 12)
		off := 16 + 12*recs
		for i := 0; i < recs; i++ {
			data = append(data, byte('a'+i%26), byte('a'+i/26), 'X', 'Y')
			data = append(data, 0, 0, byte(strLen>>8), byte(strLen&0xff))
			data = append(data, 0, 0, byte(off>>8), byte(off&0xff))
		}
		tail := verifBytes(2)
		for i := 0; i < strLen/2; i++ {
			data = append(data, 0, 'x')
		}
		data[len(data)-1] = 'a' + tail[1]&7 // one symbolic ASCII code unit
	default:
		data = verifBytes(verifChoice(10))
	}
	verifHostileBudget(len(data))
	p := newProfile()
	p.TagTable.add(DescSignature, data)
	_, _ = p.Description()
	verifReach("returned")
}
