package icc

import "bytes"

func verifHostileBudget(n int) { verifSetBudget(16*n+131072, 4000*n+200000) }

// VerifHarness_C09_ICC_TagTable: valid header, then a tag table whose declared count
// and every offset and size are unconstrained 32-bit words (k entries are
// physically present, d data bytes follow).
func VerifHarness_C09_ICC_TagTable() {
	h := verifBytes(128)
	verifAssume(verifBE32(h, 36) == 0x61637370)
	in := append([]byte{}, h...)
	in = append(in, verifBytes(4)...) // declared tag count
	k := verifChoice(3)
	in = append(in, verifBytes(12*k)...)
	in = append(in, verifBytes(verifC09D)...)
	verifHostileBudget(len(in))
	p, err := NewProfileReader(bytes.NewReader(in)).ReadProfile()
	if err == nil && p != nil {
		_, _ = p.Description()
	}
	verifReach("returned")
}

// VerifHarness_C09_ICC_Arbitrary: N arbitrary bytes given to the profile reader.
func VerifHarness_C09_ICC_Arbitrary() {
	in := verifBytes(verifC09N)
	verifHostileBudget(len(in))
	p, err := NewProfileReader(bytes.NewReader(in)).ReadProfile()
	if err == nil && p != nil {
		_, _ = p.Description()
	}
	verifReach("returned")
}

// VerifHarness_C09_ICC_Desc: Description() on a profile whose 'desc' tag holds a
// textDescription with an unconstrained ASCII count, or a multiLocalizedUnicode
// with unconstrained record count, record size, string lengths and offsets.
func VerifHarness_C09_ICC_Desc() {
	var data []byte
	switch verifChoice(3) {
	case 0:
		data = append([]byte("desc"), verifBytes(4)...)
		data = append(data, verifBytes(4)...) // ASCII count
		data = append(data, verifBytes(6)...)
	case 1:
		data = append([]byte("mluc"), verifBytes(4)...)
		data = append(data, verifBytes(8)...) // record count, record size
		r := verifChoice(verifC09R + 1)
		data = append(data, verifBytes(12*r)...) // records: lang, country, length, offset
		data = append(data, verifBytes(4)...)
	default:
		data = verifBytes(verifChoice(10))
	}
	verifHostileBudget(len(data))
	p := newProfile()
	p.TagTable.add(DescSignature, data)
	_, _ = p.Description()
	verifReach("returned")
}
