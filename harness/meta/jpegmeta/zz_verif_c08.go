package jpegmeta

import (
	"github.com/mandykoh/prism/meta/pngmeta"
	"github.com/mandykoh/prism/zzverif/rd"
)

func verifSegmented(in []byte) {
	md1, _, err1 := Load(rd.New(in))
	src := rd.New(in)
	src.Chunk = []int{1, 2, 3, 7}[verifChoice(4)]
	src.EOFWithData = verifChoice(2) == 1
	md2, _, err2 := Load(src)
	verifReach("both-loaded")
	pngmeta.VerifSameMeta(md1, err1, md2, err2)
}

// VerifHarness_C08_JPEG_Arbitrary: N arbitrary bytes, full delivery vs. chunked delivery.
func VerifHarness_C08_JPEG_Arbitrary() {
	verifSegmented(verifBytes(verifC08N))
}

// VerifHarness_C08_JPEG_Skeleton: well-formed skeletons (with symbolic fields).
func VerifHarness_C08_JPEG_Skeleton() {
	var in []byte
	// optionally a 300-byte COM segment first: completing it takes far more than a hundred
	// reads from a source that delivers 1-3 bytes per call
	VerifBigAncillary = []int{0, 300}[verifChoice(2)]
	if verifChoice(2) == 0 {
		in, _ = VerifBuildJPEG(verifChoice(2))
	} else { // with a two-chunk embedded profile, frame header first / between / last
		in, _ = VerifBuildJPEGICC(2, verifChoice(3), verifChoice(2) == 1, []byte{1, 2}, []byte{2, 2})
	}
	verifSegmented(in)
}
