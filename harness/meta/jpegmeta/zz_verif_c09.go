package jpegmeta

import (
	"github.com/mandykoh/prism/meta/pngmeta"
	"github.com/mandykoh/prism/zzverif/rd"
)

func VerifHarness_C09_JPEG_Arbitrary() {
	in := verifBytes(verifC09N)
	pngmeta.VerifHostileBudget(len(in))
	md, _, _ := Load(rd.New(in))
	pngmeta.VerifUseMetadata(md)
	verifReach("returned")
}

// VerifHarness_C09_JPEG_ICC: SOI, SOF, then APP2 ICC_PROFILE segments whose chunk
// number and chunk total are unconstrained symbolic bytes (segment lengths are symbolic
// in the arbitrary-bytes harness).
func VerifHarness_C09_JPEG_ICC() {
	in := []byte{0xff, 0xd8, 0xff, 0xc0, 0, 8}
	in = append(in, verifBytes(6)...)
	for i := 0; i < 2; i++ {
		in = append(in, 0xff, 0xe2)
		in = append(in, 0, 19) // declared length 19 = 2 + 12 + 2 + 3
		in = append(in, "ICC_PROFILE\x00"...)
		nt := verifBytes(2) // chunk number, total: small values and the extremes
		verifAssume(verifOr(nt[0] <= 4, nt[0] == 255))
		verifAssume(verifOr(nt[1] <= 3, nt[1] == 255))
		in = append(in, nt...)
		in = append(in, verifBytes(3)...)
	}
	in = append(in, 0xff, 0xda, 0, 2)
	pngmeta.VerifHostileBudget(len(in))
	md, _, _ := Load(rd.New(in))
	pngmeta.VerifUseMetadata(md)
	verifReach("returned")
}
