package jpegmeta

import "bytes"

var verifC06MaxChunks = 3

func verifSOF() []byte {
	s := []byte{0xff, 0xc0, 0, 11}
	return append(s, verifBytes(9)...)
}

// VerifBuildJPEGICC builds SOI, n APP2 ICC_PROFILE segments (payload of chunk i has
// i+1 symbolic bytes; sequence numbers and totals are the given symbolic bytes),
// optionally a COM segment before each, SOF0 before chunk sofPos (or after all when
// sofPos == n), and an SOS header. It returns the file, the payloads and the offset
// just past the last structure a loader needs.
func VerifBuildJPEGICC(n int, sofPos int, withCOM bool, seq, tot []byte) (in []byte, payloads [][]byte) {
	in = []byte{0xff, 0xd8}
	for i := 0; i < n; i++ {
		if i == sofPos {
			in = append(in, verifSOF()...)
		}
		if withCOM {
			// an interleaved segment of any other kind: COM, any APPn (an APP2 that is not
			// an ICC chunk included), DQT, DHT, DRI - the marker byte is symbolic
			// (with four chunks - thorough tier - the marker is COM: a symbolic marker there
			// multiplies the paths beyond the budget)
			m := byte(0xfe)
			if n <= 3 {
				m = verifU8()
				verifAssume(verifOr(verifAnd(m >= 0xe0, m <= 0xef), verifOr(verifOr(m == 0xfe, m == 0xdb), verifOr(m == 0xc4, m == 0xdd))))
			}
			in = append(in, 0xff, m, 0, 4)
			in = append(in, verifBytes(2)...)
		}
		p := verifBytes(i + 1)
		payloads = append(payloads, p)
		l := 2 + 12 + 2 + len(p)
		in = append(in, 0xff, 0xe2, byte(l>>8), byte(l))
		in = append(in, "ICC_PROFILE\x00"...)
		in = append(in, seq[i], tot[i])
		in = append(in, p...)
	}
	if sofPos == n {
		in = append(in, verifSOF()...)
	}
	in = append(in, 0xff, 0xda, 0, 4)
	in = append(in, verifBytes(2)...)
	return in, payloads
}

// VerifHarness_C06_JPEG: ICC.1 Annex B. The profile is the concatenation of the chunk
// payloads in sequence-number order iff every chunk declares total == n and the
// sequence numbers are a permutation of 1..n; otherwise metadata is still returned
// and the accessor reports an error - never other bytes.
func VerifHarness_C06_JPEG() {
	n := 1 + verifChoice(verifC06MaxChunks)
	sofPos := verifChoice(n + 1)
	withCOM := verifChoice(2) == 1
	seq := verifBytes(n)
	tot := verifBytes(n)
	for i := 0; i < n; i++ {
		verifAssume(seq[i] <= byte(n+1))
		verifAssume(verifAnd(tot[i] >= byte(n-1), tot[i] <= byte(n+1)))
		if n >= 3 && i > 0 {
			verifAssume(tot[i] == tot[0])
		}
	}
	in, payloads := VerifBuildJPEGICC(n, sofPos, withCOM, seq, tot)
	md, _, err := Load(bytes.NewReader(in))
	verifAssert(verifAnd(err == nil, md != nil), "JPEG with ICC segments: basic metadata not returned")
	if err != nil || md == nil {
		return
	}
	data, perr := md.ICCProfileData()
	// Specification side (ICC.1 Annex B), on concrete numbers - the path condition
	// already fixes them. Chunks are examined in file order; the first chunk's total T
	// is the declared chunk count; a chunk is damaged if its total differs from T, its
	// number is outside 1..T, or its number repeats. A loader may stop as soon as it
	// has seen the frame header and T consistent chunks (C18 forbids reading on), so
	// damage located after that point is not observable and not required to be reported.
	T := verifConcrete(int(tot[0]))
	slot := make([]int, 260)
	for i := range slot {
		slot[i] = -1
	}
	collected, damaged, done := 0, false, false
	sofSeen := false
	for i := 0; i < n && !done; i++ {
		if i == sofPos {
			sofSeen = true
			if !damaged && collected > 0 && collected == T {
				done = true
				break
			}
		}
		if damaged {
			continue
		}
		s, t := verifConcrete(int(seq[i])), verifConcrete(int(tot[i]))
		if t != T || s < 1 || s > T || slot[s] >= 0 {
			damaged = true
			continue
		}
		slot[s] = i
		collected++
		if sofSeen && collected == T {
			done = true
		}
	}
	valid := !damaged && collected > 0 && collected == T
	if valid {
		verifReach("jpeg-icc-valid")
		var want []byte
		for s := 1; s <= T; s++ {
			want = append(want, payloads[slot[s]]...)
		}
		verifAssert(perr == nil, "JPEG ICC: consistent chunks but accessor reports an error")
		verifAssert(verifEqBytes(data, want), "JPEG ICC: bytes differ from the concatenation in sequence order")
	} else {
		verifReach("jpeg-icc-damaged")
		verifAssert(data == nil, "JPEG ICC: damaged chunk set but bytes were returned")
		verifAssert(perr != nil, "JPEG ICC: damaged chunk set but no error reported")
	}
}

// VerifHarness_C06_JPEG_None: no ICC segments at all -> (nil, nil) (APP2 segments that
// do not carry the ICC_PROFILE identifier are not profiles).
func VerifHarness_C06_JPEG_None() {
	in := []byte{0xff, 0xd8, 0xff, 0xe2, 0, 18}
	id := verifBytes(16)
	verifAssume(!verifEqBytes(id[:12], []byte("ICC_PROFILE\x00")))
	in = append(in, id...)
	in = append(in, verifSOF()...)
	in = append(in, 0xff, 0xda, 0, 2)
	md, _, err := Load(bytes.NewReader(in))
	verifAssert(verifAnd(err == nil, md != nil), "JPEG without ICC: metadata not returned")
	if md == nil {
		return
	}
	data, perr := md.ICCProfileData()
	verifReach("jpeg-no-icc")
	verifAssert(verifAnd(data == nil, perr == nil), "JPEG without ICC: profile must be (nil, nil)")
}
