package jpegmeta

import "bytes"

// VerifSegments appends k marker segments whose marker byte is symbolic among
// APP0..APP15, COM, DQT, DHT, DRI, with declared length n+2 for n in {0,1,4}
// and symbolic payload.
func VerifSegments(in []byte, k int) []byte {
	for i := 0; i < k; i++ {
		n := []int{0, 1, 4}[verifChoice(3)]
		m := verifU8()
		isApp := verifAnd(m >= 0xe0, m <= 0xef)
		verifAssume(verifOr(isApp, verifOr(verifOr(m == 0xfe, m == 0xdb), verifOr(m == 0xc4, m == 0xdd))))
		in = append(in, 0xff, m, byte((n+2)>>8), byte(n+2))
		in = append(in, verifBytes(n)...)
	}
	return in
}

// VerifBuildJPEG: SOI, k segments, SOF0 or SOF2 (symbolic choice) with nf components
// (all frame header bytes symbolic except the component count), then an SOS header.
// VerifBigAncillary > 0 makes VerifBuildJPEG put a COM segment of that many (concrete)
// bytes right after SOI: a segment longer than an internal buffer, or than what a slow
// source delivers in a hundred reads.
var VerifBigAncillary = 0

func VerifBuildJPEG(k int) (in []byte, sof []byte) {
	in = append(in, 0xff, 0xd8)
	if VerifBigAncillary > 0 {
		in = append(in, 0xff, 0xfe, byte((VerifBigAncillary+2)>>8), byte(VerifBigAncillary+2))
		in = append(in, make([]byte, VerifBigAncillary)...)
	}
	in = VerifSegments(in, k)
	nf := []int{1, 3, 4}[verifChoice(3)]
	m := verifU8()
	verifAssume(verifOr(m == 0xc0, m == 0xc2))
	n := 6 + 3*nf
	in = append(in, 0xff, m, byte((n+2)>>8), byte(n+2))
	sof = verifBytes(n)
	verifAssume(sof[5] == byte(nf))
	in = append(in, sof...)
	in = append(in, 0xff, 0xda, 0, 8)
	in = append(in, verifBytes(6)...)
	in = append(in, verifBytes(3)...) // entropy-coded data
	return in, sof
}

var verifC05K = 3

func VerifHarness_C05_JPEG() {
	k := verifChoice(verifC05K)
	in, sof := VerifBuildJPEG(k)
	md, _, err := Load(bytes.NewReader(in))
	verifAssert(err == nil, "well-formed JPEG rejected")
	if err != nil || md == nil {
		return
	}
	verifReach("jpeg-parsed")
	verifAssert(md.BitsPerComponent == uint32(sof[0]), "JPEG BitsPerComponent = SOF P")
	verifAssert(md.PixelHeight == uint32(sof[1])<<8|uint32(sof[2]), "JPEG PixelHeight = SOF Y (BE16)")
	verifAssert(md.PixelWidth == uint32(sof[3])<<8|uint32(sof[4]), "JPEG PixelWidth = SOF X (BE16)")
	verifAssert(md.Format == "JPEG", "JPEG Format = JPEG")
	data, perr := md.ICCProfileData()
	verifAssert(verifAnd(data == nil, perr == nil), "JPEG without ICC segments: profile must be (nil, nil)")
}

// VerifBuildJPEGTwoSOF: SOI, a well-formed SOF0, then a second frame header (SOF0/SOF2)
// whose declared length (symbolic, 2..8) may leave fewer than the 5 bytes the parser
// indexes, then SOS. The second header makes the parser panic internally after basic
// metadata has already been extracted.
func VerifBuildJPEGTwoSOF() []byte {
	in := []byte{0xff, 0xd8, 0xff, 0xc0, 0, 11}
	in = append(in, verifBytes(9)...)
	m := verifU8()
	verifAssume(verifOr(m == 0xc0, m == 0xc2))
	n := verifChoice(7) // payload bytes 0..6
	in = append(in, 0xff, m, 0, byte(n+2))
	in = append(in, verifBytes(n)...)
	in = append(in, 0xff, 0xda, 0, 2)
	return in
}

// VerifHarness_C05_JPEG_Big: the same obligations with a 5000-byte COM segment before the
// frame header.
func VerifHarness_C05_JPEG_Big() {
	VerifBigAncillary = 5000
	VerifHarness_C05_JPEG()
}
