package matrix

// Matrix3 is column-major: m[c][r]. A(m, r, c) is the textbook entry at row r, column c.
func verifA(m Matrix3, r, c int) float64 { return m[c][r] }

func verifM() Matrix3 {
	var m Matrix3
	for c := 0; c < 3; c++ {
		for r := 0; r < 3; r++ {
			m[c][r] = verifF64()
		}
	}
	return m
}

func verifV() Vector3 { return Vector3{verifF64(), verifF64(), verifF64()} }

// textbook determinant (Laplace expansion along the first row)
func verifDet(m Matrix3) float64 {
	a := func(r, c int) float64 { return verifA(m, r, c) }
	return a(0, 0)*(a(1, 1)*a(2, 2)-a(1, 2)*a(2, 1)) -
		a(0, 1)*(a(1, 0)*a(2, 2)-a(1, 2)*a(2, 0)) +
		a(0, 2)*(a(1, 0)*a(2, 1)-a(1, 1)*a(2, 0))
}

// VerifHarness_C20_Algebra (exact real arithmetic): MulM, MulV, Transpose, Dot, MulS are
// the textbook operations for all 9+9 (9+3) real entries - polynomial identities.
func VerifHarness_C20_Algebra() {
	m, o, v, w := verifM(), verifM(), verifV(), verifV()
	s := verifF64()
	p := m.MulM(o)
	t := m.Transpose()
	mv := m.MulV(v)
	for r := 0; r < 3; r++ {
		for c := 0; c < 3; c++ {
			want := verifA(m, r, 0)*verifA(o, 0, c) + verifA(m, r, 1)*verifA(o, 1, c) + verifA(m, r, 2)*verifA(o, 2, c)
			verifAssert(verifA(p, r, c) == want, "MulM is not the matrix product")
			verifAssert(verifA(t, r, c) == verifA(m, c, r), "Transpose is not the transpose")
		}
		verifAssert(mv[r] == verifA(m, r, 0)*v[0]+verifA(m, r, 1)*v[1]+verifA(m, r, 2)*v[2], "MulV is not the matrix-vector product")
	}
	verifAssert(Dot(v, w) == v[0]*w[0]+v[1]*w[1]+v[2]*w[2], "Dot is not the dot product")
	vs := v.MulS(s)
	verifAssert(verifAnd(vs[0] == v[0]*s, verifAnd(vs[1] == v[1]*s, vs[2] == v[2]*s)), "MulS is not scaling")
	verifReach("algebra")
}

// VerifHarness_C20_Inverse (exact reals; divisions are witnesses q with q*det = adj):
// for det != 0, M*Inverse(M) = I and Inverse(M)*M = I.
func VerifHarness_C20_Inverse() {
	m := verifM()
	d := verifDet(m)
	verifAssume(verifOr(d >= 0.001, d <= -0.001))
	inv := m.Inverse()
	verifReach("inverted")
	left := m.MulM(inv)
	right := inv.MulM(m)
	for r := 0; r < 3; r++ {
		for c := 0; c < 3; c++ {
			var id float64
			if r == c {
				id = 1
			}
			verifAssert(verifA(left, r, c) == id, "M * Inverse(M) is not the identity")
			verifAssert(verifA(right, r, c) == id, "Inverse(M) * M is not the identity")
		}
	}
}

// VerifHarness_C20_Singular (bit-precise float64): a matrix with a zero column, or with
// two equal columns, is exactly singular (det == 0 in float64 arithmetic too) and
// Inverse panics as documented instead of returning a matrix.
func VerifHarness_C20_Singular() {
	m := verifM()
	for c := 0; c < 3; c++ {
		for r := 0; r < 3; r++ {
			// entries in [-4, 4] (excludes NaN and infinities)
			verifAssume(verifAnd(m[c][r] >= -4, m[c][r] <= 4))
		}
	}
	kind := verifChoice(verifC20Kinds)
	switch kind {
	case 0, 1, 2: // zero column
		m[kind] = Vector3{0, 0, 0}
	case 3:
		m[1] = m[0]
	case 4:
		m[2] = m[1]
	default:
		m[2] = m[0]
	}
	panicked := false
	func() {
		defer func() {
			if r := recover(); r != nil {
				panicked = true
			}
		}()
		_ = m.Inverse()
	}()
	verifReach("singular-tried")
	verifAssert(panicked, "Inverse of an exactly singular matrix returned instead of panicking")
}

var verifC20Kinds = 5

// VerifHarness_C20_NegControl: deliberately wrong claim (MulM computes the product in the
// other order); must be reported as violated.
func VerifHarness_C20_NegControl() {
	m, o := verifM(), verifM()
	p := m.MulM(o)
	want := verifA(o, 0, 0)*verifA(m, 0, 1) + verifA(o, 0, 1)*verifA(m, 1, 1) + verifA(o, 0, 2)*verifA(m, 2, 1)
	verifAssert(verifA(p, 0, 1) == want, "negative control: MulM(m,o) == o*m (wrong on purpose)")
}
