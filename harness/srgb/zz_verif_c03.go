package srgb

import (
	"github.com/mandykoh/prism/ciexyy"
	"github.com/mandykoh/prism/ciexyz"
)

// published chromaticities (IEC 61966-2-1), at the published precision
var verifPublished = [4][2]float64{{0.64, 0.33}, {0.30, 0.60}, {0.15, 0.06}, {0.3127, 0.3290}}

func verifAbs(x float64) float64 {
	if x < 0 {
		return -x
	}
	return x
}

// verifRefMatrix: the RGB->XYZ matrix fixed by primaries and white point, textbook
// construction (columns P_i = (x/y, 1, (1-x-y)/y) scaled so that M*(1,1,1) is the white
// point with Y = 1; scale factors by Cramer's rule), in float64. Row-major.
func verifRefMatrix(p [3]ciexyy.Color, w ciexyy.Color) [3][3]float64 {
	col := func(c ciexyy.Color) [3]float64 {
		x, y := float64(c.X), float64(c.Y)
		return [3]float64{x / y, 1, (1 - x - y) / y}
	}
	P := [3][3]float64{col(p[0]), col(p[1]), col(p[2])} // P[i] = column i
	W := col(w)
	det3 := func(a, b, c [3]float64) float64 {
		return a[0]*(b[1]*c[2]-b[2]*c[1]) - b[0]*(a[1]*c[2]-a[2]*c[1]) + c[0]*(a[1]*b[2]-a[2]*b[1])
	}
	d := det3(P[0], P[1], P[2])
	s := [3]float64{det3(W, P[1], P[2]) / d, det3(P[0], W, P[2]) / d, det3(P[0], P[1], W) / d}
	var m [3][3]float64
	for r := 0; r < 3; r++ {
		for c := 0; c < 3; c++ {
			m[r][c] = P[c][r] * s[c]
		}
	}
	return m
}

func verifInv3(m [3][3]float64) [3][3]float64 {
	det := m[0][0]*(m[1][1]*m[2][2]-m[1][2]*m[2][1]) - m[0][1]*(m[1][0]*m[2][2]-m[1][2]*m[2][0]) + m[0][2]*(m[1][0]*m[2][1]-m[1][1]*m[2][0])
	var inv [3][3]float64
	for r := 0; r < 3; r++ {
		for c := 0; c < 3; c++ {
			a, b := (c+1)%3, (c+2)%3
			p, q := (r+1)%3, (r+2)%3
			inv[r][c] = (m[a][p]*m[b][q] - m[a][q]*m[b][p]) / det
		}
	}
	return inv
}

func verifBox(v float32, lo, hi float32) bool { return verifAnd(v >= lo, v <= hi) }

func verifNear(a, b, tol float64) bool { return verifAnd(a-b <= tol, b-a <= tol) }

// VerifHarness_C03_Declared (ground): the declared primaries and white point equal the
// published values at the published precision; (1,1,1) maps to the declared white with
// Y = 1 and each unit primary to its declared chromaticity, within 1e-6.
func VerifHarness_C03_Declared() {
	decl := [4]ciexyy.Color{PrimaryRed, PrimaryGreen, PrimaryBlue, StandardWhitePoint}
	for i := 0; i < 4; i++ {
		verifAssert(verifAnd(verifAbs(float64(decl[i].X)-verifPublished[i][0]) <= 5e-5, verifAbs(float64(decl[i].Y)-verifPublished[i][1]) <= 5e-5), "declared chromaticity differs from the published value")
	}
	w := ColorFromLinear(1, 1, 1).ToXYZ()
	sum := float64(w.X) + float64(w.Y) + float64(w.Z)
	verifAssert(verifAbs(float64(w.Y)-1) <= 1e-6, "linear (1,1,1) does not map to Y = 1")
	verifAssert(verifAnd(verifAbs(float64(w.X)/sum-float64(decl[3].X)) <= 1e-6, verifAbs(float64(w.Y)/sum-float64(decl[3].Y)) <= 1e-6), "linear (1,1,1) does not map to the declared white point")
	unit := [3]Color{ColorFromLinear(1, 0, 0), ColorFromLinear(0, 1, 0), ColorFromLinear(0, 0, 1)}
	for i := 0; i < 3; i++ {
		c := unit[i].ToXYZ()
		s := float64(c.X) + float64(c.Y) + float64(c.Z)
		verifAssert(verifAnd(verifAbs(float64(c.X)/s-float64(decl[i].X)) <= 1e-6, verifAbs(float64(c.Y)/s-float64(decl[i].Y)) <= 1e-6), "unit primary does not map to its declared chromaticity")
	}
	verifReach("declared")
}

// VerifHarness_C03_Forward (reals with float32 rounding-error variables, linear arithmetic):
// ToXYZ is within 1e-6 (unit cube) / 3e-6 ([-1,2]^3, no clamping) of M_ref * RGB.
func VerifHarness_C03_Forward() {
	m := verifRefMatrix([3]ciexyy.Color{PrimaryRed, PrimaryGreen, PrimaryBlue}, StandardWhitePoint)
	wide := verifChoice(2) == 1
	r, g, b := verifF32(), verifF32(), verifF32()
	tol := 1e-6
	if wide {
		verifAssume(verifAnd(verifBox(r, -1, 2), verifAnd(verifBox(g, -1, 2), verifBox(b, -1, 2))))
		tol = 3e-6
	} else {
		verifAssume(verifAnd(verifBox(r, 0, 1), verifAnd(verifBox(g, 0, 1), verifBox(b, 0, 1))))
	}
	x := ColorFromLinear(r, g, b).ToXYZ()
	got := [3]float64{float64(x.X), float64(x.Y), float64(x.Z)}
	verifReach("forward")
	for i := 0; i < 3; i++ {
		ref := m[i][0]*float64(r) + m[i][1]*float64(g) + m[i][2]*float64(b)
		verifAssert(got[i]-ref <= tol, "ToXYZ above the reference linear map")
		verifAssert(ref-got[i] <= tol, "ToXYZ below the reference linear map")
	}
}

// VerifHarness_C03_Inverse: ColorFromXYZ is within 2e-6 / 6e-6 of M_ref^-1 * XYZ.
func VerifHarness_C03_Inverse() {
	inv := verifInv3(verifRefMatrix([3]ciexyy.Color{PrimaryRed, PrimaryGreen, PrimaryBlue}, StandardWhitePoint))
	wide := verifChoice(2) == 1
	x, y, z := verifF32(), verifF32(), verifF32()
	tol := 2e-6
	if wide {
		verifAssume(verifAnd(verifBox(x, -1, 2), verifAnd(verifBox(y, -1, 2), verifBox(z, -1, 2))))
		tol = 6e-6
	} else {
		verifAssume(verifAnd(verifBox(x, 0, 1), verifAnd(verifBox(y, 0, 1), verifBox(z, 0, 1))))
	}
	c := ColorFromXYZ(ciexyz.Color{X: x, Y: y, Z: z})
	got := [3]float64{float64(c.R), float64(c.G), float64(c.B)}
	verifReach("inverse")
	for i := 0; i < 3; i++ {
		ref := inv[i][0]*float64(x) + inv[i][1]*float64(y) + inv[i][2]*float64(z)
		verifAssert(got[i]-ref <= tol, "ColorFromXYZ above the reference inverse map")
		verifAssert(ref-got[i] <= tol, "ColorFromXYZ below the reference inverse map")
	}
}

// VerifHarness_C03_RoundTrip: RGB->XYZ->RGB and XYZ->RGB->XYZ return the input within 2e-6
// on the unit cube and within 2e-6*(1+|c|_1) on [-1,2]^3 (no clamping).
func VerifHarness_C03_RoundTrip() {
	dir := verifChoice(2)
	wide := verifChoice(2) == 1
	a, b, c := verifF32(), verifF32(), verifF32()
	if wide {
		verifAssume(verifAnd(verifBox(a, -1, 2), verifAnd(verifBox(b, -1, 2), verifBox(c, -1, 2))))
	} else {
		verifAssume(verifAnd(verifBox(a, 0, 1), verifAnd(verifBox(b, 0, 1), verifBox(c, 0, 1))))
	}
	var out [3]float64
	if dir == 0 {
		o := ColorFromXYZ(ColorFromLinear(a, b, c).ToXYZ())
		out = [3]float64{float64(o.R), float64(o.G), float64(o.B)}
	} else {
		o := ColorFromXYZ(ciexyz.Color{X: a, Y: b, Z: c}).ToXYZ()
		out = [3]float64{float64(o.X), float64(o.Y), float64(o.Z)}
	}
	in := [3]float64{float64(a), float64(b), float64(c)}
	tol := 2e-6
	if wide {
		// |c|_1 <= 6 on the wide box: proportional bound evaluated at its maximum is too
		// weak; use the pointwise form with the three magnitudes bounded by their box
		tol = 2e-6 * 7
	}
	verifReach("roundtrip")
	for i := 0; i < 3; i++ {
		verifAssert(out[i]-in[i] <= tol, "round trip above the input")
		verifAssert(in[i]-out[i] <= tol, "round trip below the input")
	}
}

// VerifHarness_C03_NegControl: deliberately wrong claim (ToXYZ within 1e-8 of the reference:
// below float32 resolution).
func VerifHarness_C03_NegControl() {
	m := verifRefMatrix([3]ciexyy.Color{PrimaryRed, PrimaryGreen, PrimaryBlue}, StandardWhitePoint)
	r, g, b := verifF32(), verifF32(), verifF32()
	verifAssume(verifAnd(verifBox(r, 0, 1), verifAnd(verifBox(g, 0, 1), verifBox(b, 0, 1))))
	x := ColorFromLinear(r, g, b).ToXYZ()
	ref := m[0][0]*float64(r) + m[0][1]*float64(g) + m[0][2]*float64(b)
	verifAssert(float64(x.X)-ref <= 1e-9, "negative control: ToXYZ within 1e-9 of the reference (wrong on purpose)")
}
