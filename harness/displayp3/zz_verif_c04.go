package displayp3

import (
	"image/color"

	"github.com/mandykoh/prism/adobergb"
	"github.com/mandykoh/prism/ciexyy"
	"github.com/mandykoh/prism/ciexyz"
	"github.com/mandykoh/prism/prophotorgb"
	"github.com/mandykoh/prism/srgb"
)

type verifSpace struct {
	name    string
	prim    [3]ciexyy.Color
	white   ciexyy.Color
	toXYZ   func(r, g, b float32) ciexyz.Color
	fromXYZ func(c ciexyz.Color) (float32, float32, float32)
}

func verifSpaces() []verifSpace {
	return []verifSpace{
		{"srgb", [3]ciexyy.Color{srgb.PrimaryRed, srgb.PrimaryGreen, srgb.PrimaryBlue}, srgb.StandardWhitePoint,
			func(r, g, b float32) ciexyz.Color { return srgb.ColorFromLinear(r, g, b).ToXYZ() },
			func(c ciexyz.Color) (float32, float32, float32) { o := srgb.ColorFromXYZ(c); return o.R, o.G, o.B }},
		{"adobergb", [3]ciexyy.Color{adobergb.PrimaryRed, adobergb.PrimaryGreen, adobergb.PrimaryBlue}, adobergb.StandardWhitePoint,
			func(r, g, b float32) ciexyz.Color { return adobergb.ColorFromLinear(r, g, b).ToXYZ() },
			func(c ciexyz.Color) (float32, float32, float32) { o := adobergb.ColorFromXYZ(c); return o.R, o.G, o.B }},
		{"prophotorgb", [3]ciexyy.Color{prophotorgb.PrimaryRed, prophotorgb.PrimaryGreen, prophotorgb.PrimaryBlue}, prophotorgb.StandardWhitePoint,
			func(r, g, b float32) ciexyz.Color { return prophotorgb.ColorFromLinear(r, g, b).ToXYZ() },
			func(c ciexyz.Color) (float32, float32, float32) {
				o := prophotorgb.ColorFromXYZ(c)
				return o.R, o.G, o.B
			}},
		{"displayp3", [3]ciexyy.Color{PrimaryRed, PrimaryGreen, PrimaryBlue}, StandardWhitePoint,
			func(r, g, b float32) ciexyz.Color { return ColorFromLinear(r, g, b).ToXYZ() },
			func(c ciexyz.Color) (float32, float32, float32) { o := ColorFromXYZ(c); return o.R, o.G, o.B }},
	}
}

// published Bradford matrix (row-major) and its textbook inverse
var verifBfd = [3][3]float64{{0.8951, 0.2664, -0.1614}, {-0.7502, 1.7135, 0.0367}, {0.0389, -0.0685, 1.0296}}

func verifMul3(a, b [3][3]float64) [3][3]float64 {
	var p [3][3]float64
	for r := 0; r < 3; r++ {
		for c := 0; c < 3; c++ {
			p[r][c] = a[r][0]*b[0][c] + a[r][1]*b[1][c] + a[r][2]*b[2][c]
		}
	}
	return p
}

// verifRefAdapt: Bradford adaptation from white a to white b, reference construction.
func verifRefAdapt(a, b ciexyy.Color) [3][3]float64 {
	xyz := func(c ciexyy.Color) [3]float64 {
		x, y := float64(c.X), float64(c.Y)
		return [3]float64{x / y, 1, (1 - x - y) / y}
	}
	cone := func(v [3]float64) [3]float64 {
		var r [3]float64
		for i := 0; i < 3; i++ {
			r[i] = verifBfd[i][0]*v[0] + verifBfd[i][1]*v[1] + verifBfd[i][2]*v[2]
		}
		return r
	}
	ra, rb := cone(xyz(a)), cone(xyz(b))
	d := [3][3]float64{{rb[0] / ra[0], 0, 0}, {0, rb[1] / ra[1], 0}, {0, 0, rb[2] / ra[2]}}
	return verifMul3(verifInv3(verifBfd), verifMul3(d, verifBfd))
}

// VerifHarness_C04_LinearStage (reals with float32 rounding-error variables): for each of
// the 16 ordered (source, destination) pairs and every linear source colour d in
// [0,1]^3 (a superset of the 256^3 decoded triples), the documented pipeline's linear
// stage - to XYZ, Bradford adaptation when the white points differ, from XYZ - is
// within 4e-6 of A_ref*d, A_ref = M_D^-1 * Bradford(S->D) * M_S built from the declared
// chromaticities and the published Bradford matrix by textbook constructions.
func VerifHarness_C04_LinearStage() {
	sp := verifSpaces()
	s, d := sp[verifChoice(4)], sp[verifChoice(4)]
	r, g, b := verifF32(), verifF32(), verifF32()
	verifAssume(verifAnd(verifBox(r, 0, 1), verifAnd(verifBox(g, 0, 1), verifBox(b, 0, 1))))
	xyz := s.toXYZ(r, g, b)
	ref := verifRefMatrix(s.prim, s.white)
	if s.white != d.white {
		xyz = ciexyz.AdaptBetweenXYYWhitePoints(s.white, d.white).Apply(xyz)
		ref = verifMul3(verifRefAdapt(s.white, d.white), ref)
	}
	or, og, ob := d.fromXYZ(xyz)
	ref = verifMul3(verifInv3(verifRefMatrix(d.prim, d.white)), ref)
	got := [3]float64{float64(or), float64(og), float64(ob)}
	verifReach("linear-stage")
	for i := 0; i < 3; i++ {
		want := ref[i][0]*float64(r) + ref[i][1]*float64(g) + ref[i][2]*float64(b)
		verifAssert(got[i]-want <= 4e-6, "linear stage above the colorimetric reference")
		verifAssert(want-got[i] <= 4e-6, "linear stage below the colorimetric reference")
	}
	if s.name == d.name {
		// converting a space to itself: the reference is the identity
		for i := 0; i < 3; i++ {
			for j := 0; j < 3; j++ {
				var e float64
				if i == j {
					e = 1
				}
				verifAssert(verifAbs(ref[i][j]-e) <= 1e-9, "reference of a space to itself is not the identity")
			}
		}
	}
}

// VerifHarness_C04_NegControl: deliberately wrong reference (adaptation omitted for
// ProPhoto -> sRGB); must be reported as violated.
func VerifHarness_C04_NegControl() {
	sp := verifSpaces()
	s, d := sp[2], sp[0]
	r, g, b := verifF32(), verifF32(), verifF32()
	verifAssume(verifAnd(verifBox(r, 0.2, 1), verifAnd(verifBox(g, 0.2, 1), verifBox(b, 0.2, 1))))
	xyz := ciexyz.AdaptBetweenXYYWhitePoints(s.white, d.white).Apply(s.toXYZ(r, g, b))
	or, _, _ := d.fromXYZ(xyz)
	ref := verifMul3(verifInv3(verifRefMatrix(d.prim, d.white)), verifRefMatrix(s.prim, s.white))
	want := ref[0][0]*float64(r) + ref[0][1]*float64(g) + ref[0][2]*float64(b)
	verifAssert(verifAnd(float64(or)-want <= 4e-6, want-float64(or) <= 4e-6), "negative control: reference without chromatic adaptation (wrong on purpose)")
}

// VerifHarness_C04_PixelStages: the pipeline's first and last stage on 8-bit
// non-premultiplied pixels of EVERY alpha (C01 fixes decoding for opaque pixels only):
// decoding an NRGBA pixel in the source space yields (T8[R], T8[G], T8[B]) - the colour
// does not depend on alpha, alpha 0 included - with alpha A/255 (that this alpha is written back
// unchanged by every encoder is C14). Source space chosen by the path (4 spaces).
func VerifHarness_C04_PixelStages() {
	r, g, b, a := verifU8(), verifU8(), verifU8(), verifU8()
	px := color.NRGBA{R: r, G: g, B: b, A: a}
	var cr, cg, cb, al, wr, wg, wb float32
	switch verifChoice(4) {
	case 0:
		c, x := srgb.ColorFromNRGBA(px)
		cr, cg, cb, al = c.R, c.G, c.B, x
		wr, wg, wb = srgb.From8Bit(r), srgb.From8Bit(g), srgb.From8Bit(b)
	case 1:
		c, x := adobergb.ColorFromNRGBA(px)
		cr, cg, cb, al = c.R, c.G, c.B, x
		wr, wg, wb = adobergb.From8Bit(r), adobergb.From8Bit(g), adobergb.From8Bit(b)
	case 2:
		c, x := prophotorgb.ColorFromNRGBA(px)
		cr, cg, cb, al = c.R, c.G, c.B, x
		wr, wg, wb = prophotorgb.From8Bit(r), prophotorgb.From8Bit(g), prophotorgb.From8Bit(b)
	default:
		c, x := ColorFromNRGBA(px)
		cr, cg, cb, al = c.R, c.G, c.B, x
		wr, wg, wb = srgb.From8Bit(r), srgb.From8Bit(g), srgb.From8Bit(b)
	}
	verifAssert(verifAnd(verifSameF32(cr, wr), verifAnd(verifSameF32(cg, wg), verifSameF32(cb, wb))), "decoding a non-premultiplied 8-bit pixel depends on its alpha (or is not the space's 8-bit table entry)")
	verifAssert(verifSameF32(al, float32(a)/255), "decoded alpha is not A/255")
	verifReach("pixel-stages")
}
