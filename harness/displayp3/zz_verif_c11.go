package displayp3

import (
	"image"
	"image/color"
	"sync"
	"sync/atomic"

	prismlinear "github.com/mandykoh/prism/linear"

	"github.com/mandykoh/prism/adobergb"
	"github.com/mandykoh/prism/prophotorgb"
	"github.com/mandykoh/prism/srgb"
)

func verifLazyCall(which int) {
	switch which {
	case 0:
		_ = srgb.From16Bit(0)
	case 1:
		_ = srgb.To16Bit(0)
	case 2:
		_ = adobergb.From16Bit(0)
	case 3:
		_ = adobergb.To16Bit(0)
	case 4:
		_ = prophotorgb.From16Bit(0)
	case 5:
		_ = prophotorgb.To16Bit(0)
	case 6:
		_ = LineariseColor(color.RGBA64{A: 65535})
	default:
		_ = EncodeColor(color.RGBA64{A: 65535})
	}
}

// VerifHarness_C11_Lazy records, for each lazily initialised function, the memory
// accesses and synchronisation events of the very first call (tables absent) and of a
// later call; the check builds the happens-before problem for concurrent callers from
// these logs (DESIGN 5 C11).
func VerifHarness_C11_Lazy() {
	which := verifChoice(8)
	verifLogBegin("first")
	verifLazyCall(which)
	verifLogEnd()
	verifLogBegin("later")
	verifLazyCall(which)
	verifLogEnd()
	verifReach("logged")
}

// VerifHarness_C11_Workers records the accesses of the worker goroutines of an image
// transform (parallelism 3 over a 2x4 image) and of a conversion helper-like loop.
func VerifHarness_C11_Workers() {
	kind := verifChoice(3)
	src := image.NewRGBA64(image.Rect(0, 0, 2, 4))
	var dst interface {
		image.Image
		Set(x, y int, c color.Color)
	}
	switch kind {
	case 0:
		dst = image.NewRGBA64(image.Rect(0, 0, 2, 4))
	case 1:
		dst = image.NewRGBA(image.Rect(0, 0, 2, 4))
	default:
		dst = image.NewNRGBA(image.Rect(0, 0, 2, 4))
	}
	f := func(c color.Color) color.RGBA64 { r, g, b, a := c.RGBA(); return color.RGBA64{uint16(r), uint16(g), uint16(b), uint16(a)} }
	verifLogBegin("workers")
	prismlinear.TransformImageColor(dst, src, 3, f)
	verifLogEnd()
	verifReach("logged")
}

// VerifHarness_C11_NativeWorkers (native replay only, also run under the race detector):
// the same transform as VerifHarness_C11_Workers. Besides what the race detector may
// report, it counts how often the per-colour function is applied: more applications
// than pixels means two unsynchronised workers handled - and wrote - the same pixel.
func VerifHarness_C11_NativeWorkers() {
	kind := verifChoice(3)
	for rep := 0; rep < 20; rep++ {
		src := image.NewRGBA64(image.Rect(0, 0, 2, 4))
		var dst interface {
			image.Image
			Set(x, y int, c color.Color)
		}
		switch kind {
		case 0:
			dst = image.NewRGBA64(image.Rect(0, 0, 2, 4))
		case 1:
			dst = image.NewRGBA(image.Rect(0, 0, 2, 4))
		default:
			dst = image.NewNRGBA(image.Rect(0, 0, 2, 4))
		}
		var calls int64
		f := func(c color.Color) color.RGBA64 {
			atomic.AddInt64(&calls, 1)
			r, g, b, a := c.RGBA()
			return color.RGBA64{uint16(r), uint16(g), uint16(b), uint16(a)}
		}
		prismlinear.TransformImageColor(dst, src, 3, f)
		verifAssert(calls == 8, "race: a pixel was handled by more than one worker goroutine (or not at all)")
	}
}

// VerifHarness_C11_NativeRace (native replay only, run under the race detector in a fresh
// process): many goroutines make their very first call concurrently.
func VerifHarness_C11_NativeRace() {
	which := verifChoice(8)
	var wg sync.WaitGroup
	start := make(chan struct{})
	for i := 0; i < 8; i++ {
		wg.Add(1)
		go func() {
			defer wg.Done()
			<-start
			verifLazyCall(which)
		}()
	}
	close(start)
	wg.Wait()
}
