package displayp3

import (
	"bytes"
	"image"
	"image/color"
	"sync"
	"sync/atomic"

	prismlinear "github.com/mandykoh/prism/linear"

	"github.com/mandykoh/prism/adobergb"
	"github.com/mandykoh/prism/cielab"
	"github.com/mandykoh/prism/ciexyz"
	"github.com/mandykoh/prism/meta/autometa"
	"github.com/mandykoh/prism/meta/jpegmeta"
	"github.com/mandykoh/prism/meta/pngmeta"
	"github.com/mandykoh/prism/meta/webpmeta"
	"github.com/mandykoh/prism/prophotorgb"
	"github.com/mandykoh/prism/srgb"
)

func verifLazyCall(which int) {
	switch which {
	case 0:
		_ = srgb.From16Bit(0)
	case 1:
		_ = srgb.To16Bit(0)
	case 2:
		_ = adobergb.From16Bit(0)
	case 3:
		_ = adobergb.To16Bit(0)
	case 4:
		_ = prophotorgb.From16Bit(0)
	case 5:
		_ = prophotorgb.To16Bit(0)
	case 6:
		_ = LineariseColor(color.RGBA64{A: 65535})
	case 7:
		_ = EncodeColor(color.RGBA64{A: 65535})
	case 8:
		_ = ciexyz.AdaptBetweenXYZWhitePoints(ciexyz.Color{X: 0.95, Y: 1, Z: 1.09}, ciexyz.Color{X: 0.96, Y: 1, Z: 0.82})
	case 9:
		_ = ciexyz.AdaptBetweenXYYWhitePoints(StandardWhitePoint, prophotorgb.StandardWhitePoint)
	case 10:
		_ = ciexyz.Color{X: 0.2, Y: 0.3, Z: 0.1}.ToLAB(ciexyz.Color{X: 0.96, Y: 1, Z: 0.82})
		_ = ciexyz.ColorFromLAB(cielab.Color{L: 50, A: 10, B: -10}, ciexyz.Color{X: 0.96, Y: 1, Z: 0.82})
	case 11:
		_ = srgb.ColorFromXYZ(srgb.ColorFromLinear(0.2, 0.3, 0.4).ToXYZ())
		_ = srgb.From8Bit(7) + float32(srgb.To8Bit(0.3))
	case 12:
		_ = adobergb.ColorFromXYZ(adobergb.ColorFromLinear(0.2, 0.3, 0.4).ToXYZ())
		_ = adobergb.From8Bit(7) + float32(adobergb.To8Bit(0.3))
	case 13:
		_ = prophotorgb.ColorFromXYZ(prophotorgb.ColorFromLinear(0.2, 0.3, 0.4).ToXYZ())
		_ = prophotorgb.From8Bit(7) + float32(prophotorgb.To8Bit(0.3))
	case 14:
		_ = ColorFromXYZ(ColorFromLinear(0.2, 0.3, 0.4).ToXYZ())
		c, a := ColorFromNRGBA(color.NRGBA{R: 1, G: 2, B: 3, A: 200})
		_ = c.ToRGBA64(a)
	case 15:
		_, _, _ = pngmeta.Load(bytes.NewReader(verifTinyPNG))
	case 16:
		_, _, _ = jpegmeta.Load(bytes.NewReader(verifTinyJPEG))
	case 17:
		_, _, _ = webpmeta.Load(bytes.NewReader(verifTinyWebP))
	default:
		_, _, _ = autometa.Load(bytes.NewReader(verifTinyWebP))
	}
}

// verifLazyN is the number of entry points of verifLazyCall.
const verifLazyN = 19

// small well-formed files that take the loaders through their ancillary-chunk paths too
// (PNG: tEXt before IDAT; JPEG: APP1 and COM before the frame header; WebP: VP8X + ICCP)
var verifTinyPNG = []byte{0x89, 'P', 'N', 'G', 0x0d, 0x0a, 0x1a, 0x0a,
	0, 0, 0, 13, 'I', 'H', 'D', 'R', 0, 0, 0, 3, 0, 0, 0, 2, 8, 2, 0, 0, 0, 1, 2, 3, 4,
	0, 0, 0, 5, 't', 'E', 'X', 't', 'k', 0, 'v', 'a', 'l', 9, 9, 9, 9,
	0, 0, 0, 0, 'I', 'D', 'A', 'T', 0, 0, 0, 0}
var verifTinyJPEG = []byte{0xff, 0xd8,
	0xff, 0xe1, 0, 6, 'E', 'x', 'i', 'f',
	0xff, 0xfe, 0, 4, 'h', 'i',
	0xff, 0xc0, 0, 17, 8, 0, 2, 0, 3, 3, 1, 0x11, 0, 2, 0x11, 0, 3, 0x11, 0,
	0xff, 0xda, 0, 2}
var verifTinyWebP = []byte{'R', 'I', 'F', 'F', 42, 0, 0, 0, 'W', 'E', 'B', 'P',
	'V', 'P', '8', 'X', 10, 0, 0, 0, 0x20, 0, 0, 0, 2, 0, 0, 1, 0, 0,
	'I', 'C', 'C', 'P', 4, 0, 0, 0, 1, 2, 3, 4,
	'V', 'P', '8', ' ', 0, 0, 0, 0}

// VerifHarness_C11_Lazy records, for each lazily initialised function, the memory
// accesses and synchronisation events of the very first call (tables absent) and of a
// later call; the check builds the happens-before problem for concurrent callers from
// these logs (DESIGN 5 C11).
func VerifHarness_C11_Lazy() {
	which := verifChoice(verifLazyN)
	verifLogBegin("first")
	verifLazyCall(which)
	verifLogEnd()
	verifLogBegin("later")
	verifLazyCall(which)
	verifLogEnd()
	verifReach("logged")
}

// VerifHarness_C11_Workers records the accesses of the worker goroutines of an image
// transform (parallelism 3 over a 2x4 image) and of a conversion helper-like loop.
func VerifHarness_C11_Workers() {
	kind := verifChoice(3)
	src := image.NewRGBA64(image.Rect(0, 0, 2, 4))
	var dst interface {
		image.Image
		Set(x, y int, c color.Color)
	}
	switch kind {
	case 0:
		dst = image.NewRGBA64(image.Rect(0, 0, 2, 4))
	case 1:
		dst = image.NewRGBA(image.Rect(0, 0, 2, 4))
	default:
		dst = image.NewNRGBA(image.Rect(0, 0, 2, 4))
	}
	f := func(c color.Color) color.RGBA64 {
		r, g, b, a := c.RGBA()
		return color.RGBA64{uint16(r), uint16(g), uint16(b), uint16(a)}
	}
	verifLogBegin("workers")
	prismlinear.TransformImageColor(dst, src, 3, f)
	verifLogEnd()
	verifReach("logged")
}

// VerifHarness_C11_NativeWorkers (native replay only, also run under the race detector):
// the same transform as VerifHarness_C11_Workers. Besides what the race detector may
// report, it counts how often the per-colour function is applied: more applications
// than pixels means two unsynchronised workers handled - and wrote - the same pixel.
func VerifHarness_C11_NativeWorkers() {
	kind := verifChoice(3)
	for rep := 0; rep < 20; rep++ {
		src := image.NewRGBA64(image.Rect(0, 0, 2, 4))
		var dst interface {
			image.Image
			Set(x, y int, c color.Color)
		}
		switch kind {
		case 0:
			dst = image.NewRGBA64(image.Rect(0, 0, 2, 4))
		case 1:
			dst = image.NewRGBA(image.Rect(0, 0, 2, 4))
		default:
			dst = image.NewNRGBA(image.Rect(0, 0, 2, 4))
		}
		var calls int64
		f := func(c color.Color) color.RGBA64 {
			atomic.AddInt64(&calls, 1)
			r, g, b, a := c.RGBA()
			return color.RGBA64{uint16(r), uint16(g), uint16(b), uint16(a)}
		}
		prismlinear.TransformImageColor(dst, src, 3, f)
		verifAssert(calls == 8, "race: a pixel was handled by more than one worker goroutine (or not at all)")
	}
}

// VerifHarness_C11_NativeRace (native replay only, run under the race detector in a fresh
// process): many goroutines make their very first call concurrently.
func VerifHarness_C11_NativeRace() {
	which := verifChoice(verifLazyN)
	var wg sync.WaitGroup
	start := make(chan struct{})
	for i := 0; i < 8; i++ {
		wg.Add(1)
		go func() {
			defer wg.Done()
			<-start
			verifLazyCall(which)
		}()
	}
	close(start)
	wg.Wait()
}

// VerifHarness_C11_NativeRacePair (native replay only, race detector, fresh process): the
// first calls of entry point f race with calls of entry point g. The g goroutines keep
// calling until the f goroutines have returned (the race runtime can drop a report whose
// earlier access belongs to a goroutine that has already exited).
func VerifHarness_C11_NativeRacePair() {
	f, g := verifChoice(verifLazyN), verifChoice(verifLazyN)
	var wgF, wgG sync.WaitGroup
	start := make(chan struct{})
	var done int32
	for i := 0; i < 4; i++ {
		wgF.Add(1)
		go func() {
			defer wgF.Done()
			<-start
			verifLazyCall(f)
			atomic.AddInt32(&done, 1)
		}()
		wgG.Add(1)
		go func() {
			defer wgG.Done()
			<-start
			for k := 0; k < 200000 && atomic.LoadInt32(&done) < 4; k++ {
				verifLazyCall(g)
			}
		}()
	}
	close(start)
	wgF.Wait()
	wgG.Wait()
}
