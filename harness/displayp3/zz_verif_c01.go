package displayp3

import (
	"image/color"

	"github.com/mandykoh/prism/adobergb"
	"github.com/mandykoh/prism/prophotorgb"
	"github.com/mandykoh/prism/srgb"
)

// VerifHarness_C01_Wiring: Display P3 shares the sRGB transfer function: its colour
// constructors on opaque colours must return exactly srgb's decoded values.
func VerifHarness_C01_Wiring() {
	v8, g8, b8 := verifU8(), verifU8(), verifU8()
	cn, an := ColorFromNRGBA(color.NRGBA{R: v8, G: g8, B: b8, A: 255})
	verifAssert(verifAnd(verifAnd(verifSameF32(cn.R, srgb.From8Bit(v8)), verifSameF32(cn.G, srgb.From8Bit(g8))), verifAnd(verifSameF32(cn.B, srgb.From8Bit(b8)), an == 1)), "displayp3.ColorFromNRGBA(opaque) is not srgb's decoding")
	cr, ar := ColorFromRGBA(color.RGBA{R: v8, G: g8, B: b8, A: 255})
	verifAssert(verifAnd(verifAnd(verifSameF32(cr.R, srgb.From8Bit(v8)), verifSameF32(cr.G, srgb.From8Bit(g8))), verifAnd(verifSameF32(cr.B, srgb.From8Bit(b8)), ar == 1)), "displayp3.ColorFromRGBA(opaque) is not srgb's decoding")
	v16, g16, b16 := verifU16(), verifU16(), verifU16()
	ce, ae := ColorFromEncodedColor(color.RGBA64{R: v16, G: g16, B: b16, A: 65535})
	verifAssert(verifAnd(verifAnd(verifSameF32(ce.R, srgb.From16Bit(v16)), verifSameF32(ce.G, srgb.From16Bit(g16))), verifAnd(verifSameF32(ce.B, srgb.From16Bit(b16)), ae == 1)), "displayp3.ColorFromEncodedColor(opaque) is not srgb's decoding")
	t8 := func(v uint8) float32 { return srgb.From16Bit(uint16(uint32(v) | uint32(v)<<8)) } // 257*v, written as image/color widens it
	same3 := func(c Color, r, g, b float32) bool {
		return verifAnd(verifSameF32(c.R, r), verifAnd(verifSameF32(c.G, g), verifSameF32(c.B, b)))
	}
	c1, a1 := ColorFromEncodedColor(color.NRGBA{R: v8, G: g8, B: b8, A: 255})
	verifAssert(verifAnd(same3(c1, t8(v8), t8(g8), t8(b8)), a1 == 1), "displayp3.ColorFromEncodedColor(opaque NRGBA) is not srgb's decoding of 257*v")
	c2, a2 := ColorFromEncodedColor(color.RGBA{R: v8, G: g8, B: b8, A: 255})
	verifAssert(verifAnd(same3(c2, t8(v8), t8(g8), t8(b8)), a2 == 1), "displayp3.ColorFromEncodedColor(opaque RGBA) is not srgb's decoding of 257*v")
	c3, a3 := ColorFromEncodedColor(color.NRGBA64{R: v16, G: g16, B: b16, A: 65535})
	verifAssert(verifAnd(same3(c3, srgb.From16Bit(v16), srgb.From16Bit(g16), srgb.From16Bit(b16)), a3 == 1), "displayp3.ColorFromEncodedColor(opaque NRGBA64) is not srgb's decoding")
	c4, a4 := ColorFromEncodedColor(color.Gray{Y: v8})
	verifAssert(verifAnd(same3(c4, t8(v8), t8(v8), t8(v8)), a4 == 1), "displayp3.ColorFromEncodedColor(Gray) is not srgb's decoding of 257*Y")
	l1 := LineariseColor(color.NRGBA{R: v8, G: g8, B: b8, A: 255})
	l2 := srgb.LineariseColor(color.NRGBA{R: v8, G: g8, B: b8, A: 255})
	verifAssert(l1 == l2, "displayp3.LineariseColor(opaque NRGBA) differs from srgb.LineariseColor")
	verifReach("wired")
}

// VerifHarness_C02_Wiring: Display P3's encoders are srgb's.
func VerifHarness_C02_Wiring() {
	x, g, b, a := verifF32(), verifF32(), verifF32(), verifF32()
	c := ColorFromLinear(x, g, b)
	n := c.ToNRGBA(a)
	verifAssert(verifAnd(verifAnd(n.R == srgb.To8Bit(x), n.G == srgb.To8Bit(g)), n.B == srgb.To8Bit(b)), "displayp3.ToNRGBA does not encode with srgb.To8Bit")
	p := c.ToRGBA(a)
	verifAssert(verifAnd(verifAnd(p.R == srgb.To8Bit(x*a), p.G == srgb.To8Bit(g*a)), p.B == srgb.To8Bit(b*a)), "displayp3.ToRGBA does not encode with srgb.To8Bit")
	q := c.ToRGBA64(a)
	verifAssert(verifAnd(verifAnd(q.R == srgb.To16Bit(x*a), q.G == srgb.To16Bit(g*a)), q.B == srgb.To16Bit(b*a)), "displayp3.ToRGBA64 does not encode with srgb.To16Bit")
	verifReach("wired")
}

func verifEnc16(p int, x float32) uint16 {
	switch p {
	case 0:
		return srgb.To16Bit(x)
	case 1:
		return adobergb.To16Bit(x)
	}
	return prophotorgb.To16Bit(x)
}

func verifEnc8(p int, x float32) uint8 {
	switch p {
	case 0:
		return srgb.To8Bit(x)
	case 1:
		return adobergb.To8Bit(x)
	}
	return prophotorgb.To8Bit(x)
}

func verifDec16(p int, v uint16) float32 {
	switch p {
	case 0:
		return srgb.From16Bit(v)
	case 1:
		return adobergb.From16Bit(v)
	}
	return prophotorgb.From16Bit(v)
}

func verifDec8(p int, v uint8) float32 {
	switch p {
	case 0:
		return srgb.From8Bit(v)
	case 1:
		return adobergb.From8Bit(v)
	}
	return prophotorgb.From8Bit(v)
}

var verifPerms = [6][3]int{{0, 1, 2}, {0, 2, 1}, {1, 0, 2}, {1, 2, 0}, {2, 0, 1}, {2, 1, 0}}

// VerifHarness_C02_Independent: the curve packages' encode tables are independent of one
// another. The three packages make their first 16-bit encode call in every order; what
// each returned then is what it returns once all tables exist (a table that is written
// after it was first read becomes a different uninterpreted function, so this is decided
// for all x at once).
func VerifHarness_C02_Independent() {
	x := verifF32()
	perm := verifPerms[verifChoice(6)]
	var e0 [3]uint16
	var b0 [3]uint8
	for _, p := range perm {
		e0[p] = verifEnc16(p, x)
		b0[p] = verifEnc8(p, x)
	}
	for p := 0; p < 3; p++ {
		verifAssert(verifEnc16(p, x) == e0[p], "a package's 16-bit encoder changes its result once the other packages' tables exist")
		verifAssert(verifEnc8(p, x) == b0[p], "a package's 8-bit encoder changes its result once the other packages' tables exist")
	}
	verifReach("independent")
}

// VerifHarness_C01_Independent: the same for the decode tables.
func VerifHarness_C01_Independent() {
	v16, v8 := verifU16(), verifU8()
	perm := verifPerms[verifChoice(6)]
	var d0, c0 [3]float32
	for _, p := range perm {
		d0[p] = verifDec16(p, v16)
		c0[p] = verifDec8(p, v8)
	}
	for p := 0; p < 3; p++ {
		verifAssert(verifSameF32(verifDec16(p, v16), d0[p]), "a package's 16-bit decoder changes its result once the other packages' tables exist")
		verifAssert(verifSameF32(verifDec8(p, v8), c0[p]), "a package's 8-bit decoder changes its result once the other packages' tables exist")
	}
	verifReach("independent")
}
