package displayp3

import (
	"image/color"

	"github.com/mandykoh/prism/srgb"
)

// VerifHarness_C01_Wiring: Display P3 shares the sRGB transfer function: its colour
// constructors on opaque colours must return exactly srgb's decoded values.
func VerifHarness_C01_Wiring() {
	v8, g8, b8 := verifU8(), verifU8(), verifU8()
	cn, an := ColorFromNRGBA(color.NRGBA{R: v8, G: g8, B: b8, A: 255})
	verifAssert(verifAnd(verifAnd(verifSameF32(cn.R, srgb.From8Bit(v8)), verifSameF32(cn.G, srgb.From8Bit(g8))), verifAnd(verifSameF32(cn.B, srgb.From8Bit(b8)), an == 1)), "displayp3.ColorFromNRGBA(opaque) is not srgb's decoding")
	cr, ar := ColorFromRGBA(color.RGBA{R: v8, G: g8, B: b8, A: 255})
	verifAssert(verifAnd(verifAnd(verifSameF32(cr.R, srgb.From8Bit(v8)), verifSameF32(cr.G, srgb.From8Bit(g8))), verifAnd(verifSameF32(cr.B, srgb.From8Bit(b8)), ar == 1)), "displayp3.ColorFromRGBA(opaque) is not srgb's decoding")
	v16, g16, b16 := verifU16(), verifU16(), verifU16()
	ce, ae := ColorFromEncodedColor(color.RGBA64{R: v16, G: g16, B: b16, A: 65535})
	verifAssert(verifAnd(verifAnd(verifSameF32(ce.R, srgb.From16Bit(v16)), verifSameF32(ce.G, srgb.From16Bit(g16))), verifAnd(verifSameF32(ce.B, srgb.From16Bit(b16)), ae == 1)), "displayp3.ColorFromEncodedColor(opaque) is not srgb's decoding")
	verifReach("wired")
}

// VerifHarness_C02_Wiring: Display P3's encoders are srgb's.
func VerifHarness_C02_Wiring() {
	x, g, b, a := verifF32(), verifF32(), verifF32(), verifF32()
	c := ColorFromLinear(x, g, b)
	n := c.ToNRGBA(a)
	verifAssert(verifAnd(verifAnd(n.R == srgb.To8Bit(x), n.G == srgb.To8Bit(g)), n.B == srgb.To8Bit(b)), "displayp3.ToNRGBA does not encode with srgb.To8Bit")
	p := c.ToRGBA(a)
	verifAssert(verifAnd(verifAnd(p.R == srgb.To8Bit(x*a), p.G == srgb.To8Bit(g*a)), p.B == srgb.To8Bit(b*a)), "displayp3.ToRGBA does not encode with srgb.To8Bit")
	q := c.ToRGBA64(a)
	verifAssert(verifAnd(verifAnd(q.R == srgb.To16Bit(x*a), q.G == srgb.To16Bit(g*a)), q.B == srgb.To16Bit(b*a)), "displayp3.ToRGBA64 does not encode with srgb.To16Bit")
	verifReach("wired")
}
