// This file holds the wiring harness of property C10: each of the eight public
// image transforms must be linear.TransformImageColor applied with that package's own
// per-colour function. Symbolically the per-colour functions are replaced by
// uninterpreted functions of the colour (engine hook), so no floating-point code is
// executed; natively the real functions run.
package displayp3

import (
	"image"
	"image/color"
	"image/draw"

	"github.com/mandykoh/prism/adobergb"
	"github.com/mandykoh/prism/prophotorgb"
	"github.com/mandykoh/prism/srgb"
)

func VerifHarness_C10_Wiring() {
	which := verifChoice(8)
	src := image.NewNRGBA(image.Rect(1, 1, 2, 3)) // 1x2
	px := verifBytes(8)
	for i := range px {
		if i%4 == 3 {
			px[i] = 0xff
		} else {
			// mid-range values, where the eight functions all differ from one another
			verifAssume(verifAnd(px[i] >= 0x40, px[i] <= 0xc0))
		}
	}
	copy(src.Pix, px)
	dst := image.NewRGBA64(image.Rect(0, 0, 1, 2))
	ref := image.NewRGBA64(image.Rect(0, 0, 1, 2))
	var f func(color.Color) color.RGBA64
	var transform func(draw.Image, image.Image, int)
	switch which {
	case 0:
		f, transform = srgb.LineariseColor, srgb.LineariseImage
	case 1:
		f, transform = srgb.EncodeColor, srgb.EncodeImage
	case 2:
		f, transform = adobergb.LineariseColor, adobergb.LineariseImage
	case 3:
		f, transform = adobergb.EncodeColor, adobergb.EncodeImage
	case 4:
		f, transform = prophotorgb.LineariseColor, prophotorgb.LineariseImage
	case 5:
		f, transform = prophotorgb.EncodeColor, prophotorgb.EncodeImage
	case 6:
		f, transform = LineariseColor, LineariseImage
	default:
		f, transform = EncodeColor, EncodeImage
	}
	transform(dst, src, 2)
	verifReach("wired")
	for y := 0; y < 2; y++ {
		ref.Set(0, y, f(src.At(1, 1+y)))
	}
	verifAssert(verifEqBytes(dst.Pix, ref.Pix), "image transform is not TransformImageColor with the package's own per-colour function")
}
