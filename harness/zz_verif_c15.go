package prism

import (
	"image"
	"image/color"
	"image/draw"
)

var verifC15Geoms = 3
var verifC15Srcs = 15
var verifC15Kind = -1

func verifKind() int {
	if verifC15Kind >= 0 {
		return verifC15Kind
	}
	return verifChoice(verifC15Srcs)
}

type VerifGeom struct {
	R      image.Rectangle // bounds of the image given to the helper
	Parent image.Rectangle // bounds of the allocated parent (== r when not a sub-image)
}

var VerifGeoms = []VerifGeom{
	{image.Rect(0, 0, 2, 2), image.Rect(0, 0, 2, 2)},
	{image.Rect(-2, 3, -1, 5), image.Rect(-2, 3, -1, 5)},     // 1x2, negative origin
	{image.Rect(1, 1, 3, 2), image.Rect(0, 0, 4, 3)},          // 2x1 sub-image, stride > width
	{image.Rect(3, -2, 3, 0), image.Rect(3, -2, 3, 0)},        // empty (zero width)
	{image.Rect(0, 0, 1, 1), image.Rect(0, 0, 1, 1)},          // 1x1
	{image.Rect(5, 5, 6, 8), image.Rect(4, 4, 8, 9)},          // 1x3 sub-image
	{image.Rect(0, 0, 3, 1), image.Rect(0, 0, 3, 1)},          // 3x1
	{image.Rect(-1, -1, 1, 1), image.Rect(-2, -2, 2, 2)},      // 2x2 sub-image around the origin
}

func verifFill(pix []byte) {
	copy(pix, verifBytes(len(pix)))
}

// verifSource builds an image of the chosen standard-library type with the given
// geometry, every byte of pixel storage symbolic, and returns it together with
// its backing storage (to check that the helper does not modify it).
func VerifSource(kind int, g VerifGeom) (image.Image, [][]byte) {
	sub := func(img interface {
		SubImage(image.Rectangle) image.Image
	}) image.Image {
		return img.SubImage(g.R)
	}
	switch kind {
	case 0:
		m := image.NewRGBA(g.Parent)
		verifFill(m.Pix)
		return sub(m), [][]byte{m.Pix}
	case 1:
		m := image.NewNRGBA(g.Parent)
		verifFill(m.Pix)
		return sub(m), [][]byte{m.Pix}
	case 2:
		m := image.NewRGBA64(g.Parent)
		verifFill(m.Pix)
		return sub(m), [][]byte{m.Pix}
	case 3:
		m := image.NewNRGBA64(g.Parent)
		verifFill(m.Pix)
		return sub(m), [][]byte{m.Pix}
	case 4:
		m := image.NewGray(g.Parent)
		verifFill(m.Pix)
		return sub(m), [][]byte{m.Pix}
	case 5:
		m := image.NewGray16(g.Parent)
		verifFill(m.Pix)
		return sub(m), [][]byte{m.Pix}
	case 6:
		m := image.NewCMYK(g.Parent)
		verifFill(m.Pix)
		return sub(m), [][]byte{m.Pix}
	case 7:
		pal := color.Palette{}
		for i := 0; i < 2; i++ {
			c := verifBytes(4)
			pal = append(pal, color.NRGBA{c[0], c[1], c[2], c[3]})
		}
		m := image.NewPaletted(g.Parent, pal)
		verifFill(m.Pix)
		for i := range m.Pix {
			verifAssume(m.Pix[i] < 2)
		}
		return sub(m), [][]byte{m.Pix}
	case 8:
		m := image.NewAlpha(g.Parent)
		verifFill(m.Pix)
		return sub(m), [][]byte{m.Pix}
	default:
		ratios := []image.YCbCrSubsampleRatio{image.YCbCrSubsampleRatio444, image.YCbCrSubsampleRatio422, image.YCbCrSubsampleRatio420, image.YCbCrSubsampleRatio440, image.YCbCrSubsampleRatio411, image.YCbCrSubsampleRatio410}
		// image.NewYCbCr mis-sizes the chroma planes for negative coordinates with the
		// 4:1:1 / 4:1:0 ratios (x/4 truncates toward zero) and the standard library
		// itself then panics; that is not prism's: use the same shape at a positive origin
		if g.Parent.Min.X < 0 || g.Parent.Min.Y < 0 {
			d := image.Pt(5-g.Parent.Min.X, 5-g.Parent.Min.Y)
			g = VerifGeom{g.R.Add(d), g.Parent.Add(d)}
		}
		m := image.NewYCbCr(g.Parent, ratios[(kind-9)%6])
		verifFill(m.Y)
		verifFill(m.Cb)
		verifFill(m.Cr)
		return sub(m), [][]byte{m.Y, m.Cb, m.Cr}
	}
}

func verifSnapshot(bufs [][]byte) [][]byte {
	var out [][]byte
	for _, b := range bufs {
		out = append(out, append([]byte{}, b...))
	}
	return out
}

func verifUnchanged(before, after [][]byte) bool {
	ok := true
	for i := range before {
		ok = verifAnd(ok, verifEqBytes(before[i], after[i]))
	}
	return ok
}

func verifPar(rows int) int {
	return []int{1, 2, 3, 7, 16, rows + 5}[verifChoice(6)]
}

// VerifHarness_C15_NRGBA: ConvertImageToNRGBA(img) == draw.Draw(NewNRGBA, Src).
func VerifHarness_C15_NRGBA() {
	g := VerifGeoms[verifChoice(verifC15Geoms)]
	kind := verifKind()
	src, bufs := VerifSource(kind, g)
	before := verifSnapshot(bufs)
	out := ConvertImageToNRGBA(src, verifPar(g.R.Dy()))
	verifReach("converted")
	verifAssert(verifUnchanged(before, bufs), "NRGBA helper modified its input")
	if s, same := src.(*image.NRGBA); same {
		verifAssert(out == s, "NRGBA helper: input of the target type is not returned as the same instance")
		return
	}
	ref := image.NewNRGBA(src.Bounds())
	draw.Draw(ref, ref.Bounds(), src, src.Bounds().Min, draw.Src)
	verifAssert(out.Rect == src.Bounds(), "NRGBA helper: bounds differ from the input's")
	verifAssert(out.Stride == ref.Stride, "NRGBA helper: stride differs from draw.Draw's image")
	verifAssert(verifEqBytes(out.Pix, ref.Pix), "NRGBA helper: pixels differ from draw.Draw(Src)")
}

// VerifHarness_C15_RGBA: ConvertImageToRGBA(img) == draw.Draw(NewRGBA, Src).
func VerifHarness_C15_RGBA() {
	g := VerifGeoms[verifChoice(verifC15Geoms)]
	kind := verifKind()
	src, bufs := VerifSource(kind, g)
	before := verifSnapshot(bufs)
	out := ConvertImageToRGBA(src, verifPar(g.R.Dy()))
	verifReach("converted")
	verifAssert(verifUnchanged(before, bufs), "RGBA helper modified its input")
	if s, same := src.(*image.RGBA); same {
		verifAssert(out == s, "RGBA helper: input of the target type is not returned as the same instance")
		return
	}
	ref := image.NewRGBA(src.Bounds())
	draw.Draw(ref, ref.Bounds(), src, src.Bounds().Min, draw.Src)
	verifAssert(out.Rect == src.Bounds(), "RGBA helper: bounds differ from the input's")
	verifAssert(out.Stride == ref.Stride, "RGBA helper: stride differs from draw.Draw's image")
	verifAssert(verifEqBytes(out.Pix, ref.Pix), "RGBA helper: pixels differ from draw.Draw(Src)")
}

// VerifHarness_C15_RGBA64: ConvertImageToRGBA64(img) == draw.Draw(NewRGBA64, Src).
func VerifHarness_C15_RGBA64() {
	g := VerifGeoms[verifChoice(verifC15Geoms)]
	kind := verifKind()
	src, bufs := VerifSource(kind, g)
	before := verifSnapshot(bufs)
	out := ConvertImageToRGBA64(src, verifPar(g.R.Dy()))
	verifReach("converted")
	verifAssert(verifUnchanged(before, bufs), "RGBA64 helper modified its input")
	if s, same := src.(*image.RGBA64); same {
		verifAssert(out == s, "RGBA64 helper: input of the target type is not returned as the same instance")
		return
	}
	ref := image.NewRGBA64(src.Bounds())
	draw.Draw(ref, ref.Bounds(), src, src.Bounds().Min, draw.Src)
	verifAssert(out.Rect == src.Bounds(), "RGBA64 helper: bounds differ from the input's")
	verifAssert(out.Stride == ref.Stride, "RGBA64 helper: stride differs from draw.Draw's image")
	verifAssert(verifEqBytes(out.Pix, ref.Pix), "RGBA64 helper: pixels differ from draw.Draw(Src)")
}

// VerifHarness_C15_NegControl: deliberately wrong expectation (premultiplied reference
// for the non-premultiplied helper); must be reported as violated.
func VerifHarness_C15_NegControl() {
	m := image.NewNRGBA64(image.Rect(0, 0, 1, 1))
	verifFill(m.Pix)
	out := ConvertImageToNRGBA(m, 1)
	ref := image.NewRGBA(m.Bounds())
	draw.Draw(ref, ref.Bounds(), m, m.Bounds().Min, draw.Src)
	verifAssert(verifEqBytes(out.Pix, ref.Pix), "negative control: NRGBA helper equals premultiplied draw (wrong on purpose)")
}
