package prism

import (
	"image"
	"image/draw"

	"github.com/mandykoh/prism/zzverif/img"
)

var verifC15Geoms = 3
var verifC15Srcs = 15
var verifC15Kind = -1

func verifKind() int {
	if verifC15Kind >= 0 {
		return verifC15Kind
	}
	return verifChoice(verifC15Srcs)
}

func verifSnapshot(bufs [][]byte) [][]byte {
	var out [][]byte
	for _, b := range bufs {
		out = append(out, append([]byte{}, b...))
	}
	return out
}

func verifUnchanged(before, after [][]byte) bool {
	ok := true
	for i := range before {
		ok = verifAnd(ok, verifEqBytes(before[i], after[i]))
	}
	return ok
}

func verifPar(rows int) int {
	return []int{1, 2, 3, 7, 16, rows + 5}[verifChoice(6)]
}

// VerifHarness_C15_NRGBA: ConvertImageToNRGBA(img) == draw.Draw(NewNRGBA, Src).
func VerifHarness_C15_NRGBA() {
	g := img.VerifGeoms[verifChoice(verifC15Geoms)]
	kind := verifKind()
	src, bufs := img.VerifSource(kind, g)
	before := verifSnapshot(bufs)
	palBefore := img.VerifPaletteCopy(src)
	out := ConvertImageToNRGBA(src, verifPar(g.R.Dy()))
	verifReach("converted")
	verifAssert(verifUnchanged(before, bufs), "NRGBA helper modified its input")
	verifAssert(img.VerifPaletteIntact(src, palBefore), "NRGBA helper modified its input's palette")
	if s, same := src.(*image.NRGBA); same {
		verifAssert(out == s, "NRGBA helper: input of the target type is not returned as the same instance")
		return
	}
	ref := image.NewNRGBA(src.Bounds())
	draw.Draw(ref, ref.Bounds(), src, src.Bounds().Min, draw.Src)
	verifAssert(out.Rect == src.Bounds(), "NRGBA helper: bounds differ from the input's")
	verifAssert(out.Stride == ref.Stride, "NRGBA helper: stride differs from draw.Draw's image")
	verifAssert(verifEqBytes(out.Pix, ref.Pix), "NRGBA helper: pixels differ from draw.Draw(Src)")
}

// VerifHarness_C15_RGBA: ConvertImageToRGBA(img) == draw.Draw(NewRGBA, Src).
func VerifHarness_C15_RGBA() {
	g := img.VerifGeoms[verifChoice(verifC15Geoms)]
	kind := verifKind()
	src, bufs := img.VerifSource(kind, g)
	before := verifSnapshot(bufs)
	palBefore := img.VerifPaletteCopy(src)
	out := ConvertImageToRGBA(src, verifPar(g.R.Dy()))
	verifReach("converted")
	verifAssert(verifUnchanged(before, bufs), "RGBA helper modified its input")
	verifAssert(img.VerifPaletteIntact(src, palBefore), "RGBA helper modified its input's palette")
	if s, same := src.(*image.RGBA); same {
		verifAssert(out == s, "RGBA helper: input of the target type is not returned as the same instance")
		return
	}
	ref := image.NewRGBA(src.Bounds())
	draw.Draw(ref, ref.Bounds(), src, src.Bounds().Min, draw.Src)
	verifAssert(out.Rect == src.Bounds(), "RGBA helper: bounds differ from the input's")
	verifAssert(out.Stride == ref.Stride, "RGBA helper: stride differs from draw.Draw's image")
	verifAssert(verifEqBytes(out.Pix, ref.Pix), "RGBA helper: pixels differ from draw.Draw(Src)")
}

// VerifHarness_C15_RGBA64: ConvertImageToRGBA64(img) == draw.Draw(NewRGBA64, Src).
func VerifHarness_C15_RGBA64() {
	g := img.VerifGeoms[verifChoice(verifC15Geoms)]
	kind := verifKind()
	src, bufs := img.VerifSource(kind, g)
	before := verifSnapshot(bufs)
	palBefore := img.VerifPaletteCopy(src)
	out := ConvertImageToRGBA64(src, verifPar(g.R.Dy()))
	verifReach("converted")
	verifAssert(verifUnchanged(before, bufs), "RGBA64 helper modified its input")
	verifAssert(img.VerifPaletteIntact(src, palBefore), "RGBA64 helper modified its input's palette")
	if s, same := src.(*image.RGBA64); same {
		verifAssert(out == s, "RGBA64 helper: input of the target type is not returned as the same instance")
		return
	}
	ref := image.NewRGBA64(src.Bounds())
	draw.Draw(ref, ref.Bounds(), src, src.Bounds().Min, draw.Src)
	verifAssert(out.Rect == src.Bounds(), "RGBA64 helper: bounds differ from the input's")
	verifAssert(out.Stride == ref.Stride, "RGBA64 helper: stride differs from draw.Draw's image")
	verifAssert(verifEqBytes(out.Pix, ref.Pix), "RGBA64 helper: pixels differ from draw.Draw(Src)")
}

// VerifHarness_C15_NegControl: deliberately wrong expectation (premultiplied reference
// for the non-premultiplied helper); must be reported as violated.
func VerifHarness_C15_NegControl() {
	m := image.NewNRGBA64(image.Rect(0, 0, 1, 1))
	img.Fill(m.Pix)
	out := ConvertImageToNRGBA(m, 1)
	ref := image.NewRGBA(m.Bounds())
	draw.Draw(ref, ref.Bounds(), m, m.Bounds().Min, draw.Src)
	verifAssert(verifEqBytes(out.Pix, ref.Pix), "negative control: NRGBA helper equals premultiplied draw (wrong on purpose)")
}
